"""Bounded stand-ins for the output layer (DESIGN.md §4, §8): C17 `cli_completes`, C18 `exports_faithful`.

Both drive the REAL command line of tealer (`tealer/__main__.py::main`) on programs of bounded/gen.py plus hand-written
adversarial layouts, and observe only what a user observes: exit status, stdout/stderr, the files under
$TEALER_ROOT_OUTPUT_DIR.  Two ways of running the CLI are used and stated in the summary of every run:

* `subprocess`: `/verif/.venv/bin/python -m tealer <argv>` with PYTHONPATH=/repo, cwd = a fresh temp directory that holds
  `f.teal`, TEALER_ROOT_OUTPUT_DIR=<temp>/out, 120 s timeout.
* `in-process`: `tealer.__main__.main()` with a patched `sys.argv`, `SystemExit` caught, stdout/stderr captured, the
  module constant ROOT_OUTPUT_DIRECTORY re-bound in every tealer module that imported it (it is read from the
  environment at import time).  Every failure seen in-process is re-run as a real subprocess and is reported only
  if the subprocess fails too.

C18 reads the exported DOT files back with the small DOT-subset reader below (`read_dot`; cross-checked against
graphviz `dot -Tdot_json` on a sample when /usr/bin/dot exists) and compares them with the internal graph of the very
Tealer object the CLI run built (captured by wrapping `init_tealer_from_single_contract` inside the worker process).

Labelled *bounded*: never counted as proved.
"""
from __future__ import annotations

import contextlib
import html
import io
import json
import multiprocessing as mp
import os
import re
import shutil
import subprocess
import sys
import tempfile
import time
import traceback
from pathlib import Path
from typing import Any, Dict, Iterator, List, Optional, Sequence, Set, Tuple

from bounded.registry import standin

PYTHON = "/verif/.venv/bin/python" if os.path.exists("/verif/.venv/bin/python") else sys.executable
REPO = os.environ.get("VERIF_REPO", "/repo")
SUBPROCESS_TIMEOUT = 120
PRINTERS = ["cfg", "subroutine-cfg", "call-graph", "human-summary", "transaction-context"]
MODES: List[Tuple[str, List[str]]] = [
    ("detect-text", ["detect", "--contracts", "f.teal"]),
    ("detect-json", ["--json", "-", "detect", "--contracts", "f.teal"]),
] + [(f"print-{p}", ["print", p, "--contracts", "f.teal"]) for p in PRINTERS]

# class of a violation -> listed finding (DESIGN.md §9 / known_findings.json).  Violations whose class maps to an id in
# `known` are counted in summary["attributed_to_listed_findings"] instead of being reported.
CLASS_TO_FINDING: Dict[str, str] = {
    # C17 (crash classes: <subcommand or "init">:<exception>@<innermost tealer file>:<function>)
    "print-transaction-context:KeyError@teal/functions.py:transaction_context": "D7",
    "init:KeyError@utils/teal_enums.py:transaction_type_to_tealer_type": "D11",
    "init:KeyError@utils/teal_enums.py:oncompletion_to_tealer_type": "D11",
    "init:KeyError@analyses/dataflow/transaction_context/generic.py:_calculate_reachin[dead-block-2succ]": "D6",
    # C18
    "path-dot-highlight-misses-main-blocks": "D8",
    "json-success-inverted-on-success": "D9",
    "json-success-inverted-on-error": "D9",
    "init:KeyError@teal/functions.py:return_point_blocks[retsub-in-main]": "D24",
    "init:KeyError@analyses/dataflow/transaction_context/generic.py:_calculate_reachin[shared-block]": "D25",
    # `--filter-paths ""` is the option's default and documented as "no filter"
    "filter-empty-pattern-keeps-all": "NOTE-outside-claim",
}
# observations that are recorded in summary["notes"] but are not violations of the property as stated
NOTE_CLASSES = {"json-stdout-has-preamble"}


# =====================================================================================================================
# programs
# =====================================================================================================================

def select_programs(n: int, seed: int) -> List[Dict[str, Any]]:
    """n programs of bounded.gen.programs(k=2) spread evenly over all control shapes (and, inside a shape, over the
    statement families): the exhaustive prefix is bucketed by shape and sampled with a fixed stride; the tail of every
    bucket is filled from the seeded random part."""
    from bounded import gen
    pool = max(6000, 12 * n)
    buckets: Dict[str, List[Dict[str, Any]]] = {}
    for p in gen.programs(2, seed=seed, limit=pool):
        buckets.setdefault(p["meta"]["shape"], []).append(p)
    shapes = sorted(buckets)
    per = -(-n // len(shapes))
    picked: Dict[str, List[Dict[str, Any]]] = {}
    for s in shapes:
        fams: Dict[str, List[Dict[str, Any]]] = {}
        for p in buckets[s]:
            fams.setdefault(p["name"].split("/")[0], []).append(p)
        order = sorted(fams)
        rot = (seed + 3 * shapes.index(s)) % len(order)   # different shapes start with different families
        order = order[rot:] + order[:rot]
        lst: List[Dict[str, Any]] = []
        rounds = -(-per // len(order))
        for k in range(rounds):          # k-th pick of every family: spread over the family's part of the bucket
            for f in order:
                b = fams[f]
                lst.append(b[min(len(b) - 1, (k * len(b)) // rounds + (seed % 3 if len(b) > 3 * rounds else 0))])
        picked[s] = lst[:per]
    # interleave the shapes so that cutting the list at n keeps every shape
    chosen: List[Dict[str, Any]] = []
    for i in range(per):
        for s in shapes:
            if i < len(picked[s]):
                chosen.append(picked[s][i])
    seen: Set[str] = set()
    out = []
    for p in chosen:
        if p["src"] not in seen:
            seen.add(p["src"])
            out.append({"name": p["name"], "src": p["src"]})
    return out[:n] if len(out) > n else out


def _t(s: str) -> str:
    return "\n".join(s.strip("\n").split("\n")) + "\n"


# Hand-written adversarial layouts of the property text.  All are assembler-valid (checked with spec.avm.parse and
# version_problems in `adversarial()`); subroutine bodies are entered only through callsub.
_ADVERSARIAL: List[Tuple[str, str]] = [
    # a subroutine with two call sites, one of them the last instruction of the program (no return point there), the other with a
    # return point that approves; nothing validates any field: every detector walks callsub -> retsub -> "return point" of both sites
    ("callsub_last_shared_callee", """
#pragma version 6
txn OnCompletion
bnz tail
callsub f
int 1
return
f:
int 1
pop
retsub
tail:
int 1
callsub f
"""),
    ("callsub_last_shared_callee_nested", """
#pragma version 6
txn OnCompletion
bnz tail
callsub g
int 1
return
g:
callsub f
retsub
f:
int 1
pop
retsub
tail:
int 1
callsub g
"""),
    ("callsub_last_in_loop_shared_callee", """
#pragma version 6
int 0
top:
dup
int 2
<
bz out
callsub f
int 1
+
b top
out:
pop
int 1
return
f:
txn Fee
pop
retsub
tail:
int 1
callsub f
"""),
    ("dead_block_two_live_successors", """
#pragma version 4
txn Fee
bz live2
b live
int 1
bnz live
live2:
int 1
return
live:
int 1
return
"""),
    ("dead_code_branches_into_live", """
#pragma version 4
int 1
return
dead:
int 0
bz dead2
b live
dead2:
b live
live:
int 1
return
"""),
    ("dead_code_calls_live_sub", """
#pragma version 4
callsub f
int 1
return
callsub f
int 1
return
f:
retsub
"""),
    ("dead_code_calls_sub_only_called_from_dead", """
#pragma version 4
int 1
return
callsub g
int 1
return
g:
int 2
pop
retsub
"""),
    ("dead_sub_calls_live_sub", """
#pragma version 4
callsub f
int 1
return
dead:
callsub h
err
h:
callsub f
retsub
f:
retsub
"""),
    ("dead_callsub_last", """
#pragma version 4
b main
f:
retsub
main:
callsub f
int 1
return
callsub f
"""),
    ("label_at_very_end", """
#pragma version 4
int 1
int 1
bnz end
pop
int 1
return
end:
"""),
    ("two_labels_at_very_end", """
#pragma version 4
int 1
txn Fee
bz end1
int 1
bnz end2
int 1
return
end1:
end2:
"""),
    ("empty_subroutine", """
#pragma version 4
callsub f
int 1
return
f:
retsub
"""),
    ("subroutine_is_label_at_end", """
#pragma version 4
int 1
callsub f
f:
"""),
    ("back_to_back_labels", """
#pragma version 4
txn Fee
bz a
txn Fee
int 1
==
bnz b
b c
a:
b:
c:
int 1
return
"""),
    ("branch_last_backward", """
#pragma version 4
int 0
store 0
top:
load 0
int 1
+
store 0
load 0
int 3
<
bz done
b top
done:
int 1
return
b top
"""),
    ("bnz_last", """
#pragma version 4
b main
ok:
int 1
return
main:
int 1
txn Fee
bnz ok
"""),
    ("b_last", """
#pragma version 4
b main
ok:
int 1
return
main:
b ok
"""),
    ("callsub_last_callee_retsubs", """
#pragma version 4
b main
f:
retsub
main:
int 1
callsub f
"""),
    ("callsub_last_callee_returns", """
#pragma version 4
b main
f:
int 1
return
main:
callsub f
"""),
    ("callsub_last_callee_both", """
#pragma version 4
b main
f:
txn Fee
bz out
int 1
return
out:
retsub
main:
int 1
callsub f
"""),
    ("loop_simple", """
#pragma version 4
int 0
loop:
int 1
+
dup
int 5
<
bnz loop
pop
int 1
return
"""),
    ("loop_nested_with_call", """
#pragma version 4
int 0
store 0
outer:
int 0
store 1
inner:
callsub step
load 1
int 2
<
bnz inner
load 0
int 1
+
store 0
load 0
int 2
<
bnz outer
int 1
return
step:
load 1
int 1
+
store 1
retsub
"""),
    ("self_loop", """
#pragma version 4
int 1
l:
b l
"""),
    ("recursion", """
#pragma version 4
int 3
callsub f
int 1
return
f:
dup
bz base
int 1
-
callsub f
retsub
base:
retsub
"""),
    ("mutual_recursion", """
#pragma version 4
int 4
callsub even
return
even:
dup
bz yes
int 1
-
callsub odd
retsub
yes:
pop
int 1
retsub
odd:
dup
bz no
int 1
-
callsub even
retsub
no:
pop
int 0
retsub
"""),
    ("subroutine_before_main", """
#pragma version 4
b main
f:
int 7
pop
retsub
g:
callsub f
retsub
main:
callsub g
callsub f
int 1
return
"""),
    ("intcblock_forms", """
#pragma version 4
intcblock 1 1000 6
bytecblock 0x00 0x0102
txn Fee
intc_1
<=
assert
txn TypeEnum
intc 2
==
bytec_0
pop
bytec 1
pop
pop
intc_0
return
"""),
    ("intcblock_not_in_entry_block", """
#pragma version 4
txn Fee
bz other
intcblock 1 2
intc_0
return
other:
intcblock 3 4
intc_1
return
"""),
    ("comments_blank_indentation", """
// leading comment

#pragma version 4

    // an indented comment
\ttxn Fee   // trailing comment
\tint 1000
    <=
assert

  lbl:   // comment after a label
      byte "a // b"
      pop
   int 1
return
// trailing comment
"""),
    ("no_pragma_single_instruction", """
int 1
"""),
    ("entry_block_is_loop_target", """
#pragma version 4
start:
txn Fee
bnz start
int 1
return
"""),
    ("label_after_callsub_is_jump_target", """
#pragma version 4
txn Fee
bnz skip
callsub f
skip:
callsub f
int 1
return
f:
retsub
"""),
    ("branch_to_next_line", """
#pragma version 4
int 1
bnz next
next:
int 0
bz next2
next2:
int 1
b next3
next3:
return
"""),
    ("switch_match_forms", """
#pragma version 8
txn Fee
switch a a b
int 1
int 2
int 1
match b c
a:
int 1
return
b:
int 1
return
c:
int 1
return
"""),
    ("switch_last", """
#pragma version 8
b main
a:
int 1
return
main:
txn Fee
switch a a
"""),
    ("deep_call_chain_and_call_in_loop", """
#pragma version 4
int 0
l:
callsub f
int 1
+
dup
int 3
<
bnz l
pop
int 1
return
f:
callsub g
retsub
g:
callsub h
retsub
h:
retsub
"""),
    ("dead_code_after_err_and_dead_retsub", """
#pragma version 4
callsub f
int 1
return
f:
txn Fee
bz bad
retsub
bad:
err
int 1
retsub
"""),
    ("retsub_outside_subroutine", """
#pragma version 4
txn Fee
bz ok
retsub
ok:
int 1
return
"""),
    ("dead_block_in_subroutine_two_live_successors", """
#pragma version 4
callsub f
int 1
return
f:
txn Fee
bz f_a
b f_b
int 1
bnz f_b
f_a:
retsub
f_b:
retsub
"""),
    ("dead_switch_in_subroutine", """
#pragma version 8
callsub f
int 1
return
f:
txn Fee
switch a b c
retsub
txn Fee
switch a b c
a:
retsub
b:
retsub
c:
retsub
"""),
    ("dead_code_in_subroutine_calls_and_branches_to_main", """
#pragma version 4
callsub f
m:
int 1
return
f:
retsub
callsub f
int 1
bnz m
retsub
"""),
    ("two_subroutines_share_tail", """
#pragma version 4
callsub f
callsub g
int 1
return
f:
b tail
g:
b tail
tail:
retsub
"""),
    ("callsub_last_inside_subroutine", """
#pragma version 4
b main
g:
retsub
main:
callsub f
int 1
return
f:
callsub g
"""),
    ("same_sub_called_twice_at_end", """
#pragma version 4
b main
f:
retsub
main:
int 1
callsub f
callsub f
"""),
    ("branch_to_label_at_end_inside_subroutine", """
#pragma version 4
int 1
callsub f
return
f:
txn Fee
bz e
retsub
e:
"""),
    ("only_a_label", """
#pragma version 4
l:
"""),
    ("dead_recursive_sub_and_unused_labels", """
#pragma version 4
int 1
return
unused1:
callsub r
unused2:
err
r:
txn Fee
bz out
callsub r
out:
retsub
"""),
]


def large_layout_programs(seed: int, n: int) -> List[Dict[str, Any]]:
    """programs with 11..28 basic blocks whose handlers come first and whose dispatcher sits at the bottom (`b main` ...
    `main:`), so that reported paths go through blocks with two-digit ids without visiting the blocks named by their
    digits; at most 6 conditional branches (path search stays small); version 8 (backward jumps are valid since v4)"""
    import random as _r
    from spec import avm
    rnd = _r.Random(seed * 104729 + 5)
    out = []
    while len(out) < n:
        nh = rnd.randint(3, 6)                       # handlers
        lines = ["#pragma version 8", "b main"]
        for h in range(nh):
            lines.append(f"H{h}:")
            for c in range(rnd.randint(1, 4)):       # a chain of blocks inside the handler (labels make block leaders)
                lines += [rnd.choice(["int 1\npop", "txn Fee\npop", "global GroupSize\npop", "txn Sender\npop"]), f"b H{h}_{c}", f"H{h}_{c}:"]
            lines += [rnd.choice(["int 1", "txn NumAppArgs", "int 0"]), "return"]
        lines.append("main:")
        for h in range(nh - 1):
            lines += ["txn NumAppArgs", f"int {h}", "==", f"bnz H{h}"]
        lines += [f"b H{nh - 1}"]
        src = "\n".join(lines) + "\n"
        avm.parse(src)
        out.append({"name": f"large/{len(out)}", "src": src})
    return out


def adversarial() -> List[Dict[str, Any]]:
    """the hand-written layouts; each is checked to assemble by the independent reference parser"""
    from spec import avm
    out = []
    for name, src in _ADVERSARIAL:
        src = _t(src)
        prog = avm.parse(src)  # raises ParseError on text that would not assemble
        # bytecblock/bytec*/byte literals (valid since v2, assembler facts) are outside the interpreter's fragment: not a problem
        problems = [m for m in avm.version_problems(prog) if "outside the fragment" not in m]
        if problems:
            raise AssertionError(f"adversarial layout {name} is not assembler-valid: {problems}")
        out.append({"name": f"adversarial/{name}", "src": src})
    return out


# =====================================================================================================================
# running the command line
# =====================================================================================================================

def _set_outdir(outdir: str) -> None:
    """ROOT_OUTPUT_DIRECTORY is computed from the environment when tealer.utils.output is imported and copied by name
    into the printers and __main__: re-bind every copy (what a fresh process with the environment variable sees)."""
    import tealer.__main__  # noqa: F401  (imports every printer module)
    for name, mod in list(sys.modules.items()):
        if name.startswith("tealer") and mod is not None and hasattr(mod, "ROOT_OUTPUT_DIRECTORY"):
            setattr(mod, "ROOT_OUTPUT_DIRECTORY", Path(outdir))


def run_inproc(argv: List[str], cwd: str, outdir: str) -> Dict[str, Any]:
    import logging
    import tealer.__main__ as tm
    _set_outdir(outdir)
    old_argv, old_cwd = sys.argv, os.getcwd()
    out, err = io.StringIO(), io.StringIO()
    code: Any = 0
    tb = ""
    levels = {n: logging.getLogger(n).level for n in ("Detectors", "TransactionCtxAnalysis", "Parsing", "Tealer")}
    try:
        os.chdir(cwd)
        sys.argv = ["tealer"] + list(argv)
        with contextlib.redirect_stdout(out), contextlib.redirect_stderr(err):
            try:
                tm.main()
            except SystemExit as e:
                code = 0 if e.code is None else (e.code if isinstance(e.code, int) else 1)
            except BaseException:  # pylint: disable=broad-except
                code = 1
                tb = traceback.format_exc()
    finally:
        sys.argv = old_argv
        os.chdir(old_cwd)
        for n, lv in levels.items():
            logging.getLogger(n).setLevel(lv)
    return {"how": "in-process", "code": code, "stdout": out.getvalue(), "stderr": err.getvalue() + tb}


def run_subproc(argv: List[str], cwd: str, outdir: str) -> Dict[str, Any]:
    env = {k: v for k, v in os.environ.items() if k not in ("PYTHONPATH", "TEALER_ROOT_OUTPUT_DIR")}
    env["PYTHONPATH"] = REPO
    env["TEALER_ROOT_OUTPUT_DIR"] = outdir
    try:
        p = subprocess.run([PYTHON, "-m", "tealer"] + list(argv), cwd=cwd, env=env, capture_output=True, text=True,
                           timeout=SUBPROCESS_TIMEOUT, check=False)
        return {"how": "subprocess", "code": p.returncode, "stdout": p.stdout, "stderr": p.stderr}
    except subprocess.TimeoutExpired as e:
        return {"how": "subprocess", "code": "timeout", "stdout": str(e.stdout or ""), "stderr": f"timeout after {SUBPROCESS_TIMEOUT}s"}


def layout_tags(src: str) -> List[str]:
    """Structural features of a program that distinguish crash causes with the same traceback; computed from the source
    text with the reference parser only (AVM control rules; retained = reachable from the first instruction or from a
    callsub target without following calls, the instruction after a callsub being its successor)."""
    from spec import avm
    try:
        prog = avm.parse(src)
    except Exception:  # pylint: disable=broad-except
        return []
    ins = prog.instrs
    n = len(ins)
    if n == 0:
        return []
    lead = avm.leaders(prog)
    owner = avm.block_of(prog)
    last_of = {b: (lead[k + 1] - 1 if k + 1 < len(lead) else n - 1) for k, b in enumerate(lead)}

    def succ(b: int) -> List[int]:
        e = last_of[b]
        op, args = ins[e].op, ins[e].args
        fall = [e + 1] if e + 1 < n else []
        if op == "b":
            t = [prog.labels[args[0]]]
        elif op in ("bz", "bnz"):
            t = fall + [prog.labels[args[0]]]
        elif op in ("switch", "match"):
            t = fall + [prog.labels[a] for a in args]
        elif op in ("return", "err", "retsub"):
            t = []
        else:
            t = fall  # callsub: the return point
        return list(dict.fromkeys(owner[x] for x in t))

    def closure(root: int) -> Set[int]:
        seen, todo = set(), [root]
        while todo:
            b = todo.pop()
            if b not in seen:
                seen.add(b)
                todo += succ(b)
        return seen

    roots = {"__main__": 0}
    for i in ins:
        if i.op == "callsub":
            roots[i.args[0]] = owner[prog.labels[i.args[0]]]
    regions = {name: closure(r) for name, r in roots.items()}
    retained = set().union(*regions.values())
    tags = []
    if any(len(succ(b)) >= 2 for b in lead if b not in retained):
        tags.append("dead-block-2succ")
    if any(ins[last_of[b]].op == "retsub" for b in regions["__main__"]):
        tags.append("retsub-in-main")
    names = sorted(regions)
    if any(regions[a] & regions[b] for k, a in enumerate(names) for b in names[k + 1:]):
        tags.append("shared-block")
    return tags


_FRAME = re.compile(r'File "([^"]*?/tealer/([^"]+))", line (\d+), in (\S+)')


def classify_traceback(mode: str, text: str) -> str:
    """stable class of a crash: <mode>:<exception type>@<innermost tealer file>:<function>"""
    frames = _FRAME.findall(text)
    exc = "?"
    for line in reversed(text.strip().splitlines()):
        m = re.match(r"^([A-Za-z_][\w.]*(?:Error|Exception|Exit|Interrupt|Warning))\b", line.strip())
        if m:
            exc = m.group(1).split(".")[-1]
            break
    if "in init_tealer_from_single_contract" in text:
        mode = "init"  # parse_teal / construct_function: the same for every subcommand
    if frames:
        _, rel, _, func = frames[-1]
        return f"{mode}:{exc}@{rel}:{func}"
    return f"{mode}:{exc}@?"


def _mode_of(argv: List[str]) -> str:
    if argv[0] == "--json":
        return "detect-json"
    return f"print-{argv[1]}" if argv[0] == "print" else "detect-text"


def extract_json(stdout: str) -> Tuple[Optional[Any], int, Optional[str]]:
    """(document, number of stdout lines before it, error).  The CLI prints `Reading contract from file: ...` on stdout
    before the JSON document: the document is taken to start at the first line that is exactly `{`."""
    lines = stdout.split("\n")
    for k, ln in enumerate(lines):
        if ln.rstrip() == "{":
            try:
                return json.loads("\n".join(lines[k:])), k, None
            except ValueError as e:
                return None, k, f"stdout from line {k + 1} on is not JSON: {e}"
    return None, len(lines), "no JSON document on stdout"


def judge(mode: str, r: Dict[str, Any]) -> Optional[Tuple[str, str]]:
    """None if the run succeeded by the C17 criterion, else (class, one-line description)"""
    both = r["stdout"] + "\n" + r["stderr"]
    if "Traceback (most recent call last)" in both:
        cls = classify_traceback(mode, both)
        last = [ln for ln in both.strip().splitlines() if ln.strip()][-1]
        return cls, f"tealer ({mode}) raised: {last.strip()[:200]}"
    if r["code"] != 0:
        return f"{mode}:exit-status-{r['code']}", f"tealer ({mode}) exit status {r['code']}: {both.strip()[-200:]}"
    if mode == "detect-json":
        doc, _, e = extract_json(r["stdout"])
        if doc is None:
            return "detect-json:stdout-not-json", f"`--json -`: {e}"
    return None


@contextlib.contextmanager
def workdir(base: str, src: str) -> Iterator[Tuple[str, str]]:
    d = tempfile.mkdtemp(dir=base)
    try:
        with open(os.path.join(d, "f.teal"), "w", encoding="utf-8") as f:
            f.write(src)
        yield d, os.path.join(d, "out")
    finally:
        shutil.rmtree(d, ignore_errors=True)


# =====================================================================================================================
# C17
# =====================================================================================================================

def _c17_work(job: Tuple[str, str, str, bool, Optional[List[str]]]) -> Dict[str, Any]:
    name, src, base, sub, only = job
    res: Dict[str, Any] = {"name": name, "src": src, "runs_inproc": 0, "runs_subproc": 0, "failures": [], "notes": {}}
    with workdir(base, src) as (cwd, out):
        for mode, argv in MODES:
            if only is not None and mode not in only:
                continue
            if sub:
                r = run_subproc(argv, cwd, out)
                res["runs_subproc"] += 1
            else:
                r = run_inproc(argv, cwd, out)
                res["runs_inproc"] += 1
            bad = judge(mode, r)
            if bad and bad[0].startswith("init:"):
                tags = layout_tags(src)
                bad = (bad[0] + (f"[{','.join(tags)}]" if tags else ""), bad[1])
            if bad:
                res["failures"].append({"mode": mode, "argv": argv, "class": bad[0], "failure": bad[1], "how": r["how"],
                                        "exit_status": r["code"], "stderr_tail": r["stderr"][-1500:],
                                        "stdout_tail": r["stdout"][-300:]})
            elif mode == "detect-json":
                _, pre, _ = extract_json(r["stdout"])
                if pre:
                    res["notes"]["json-stdout-has-preamble"] = r["stdout"].split("\n")[0][:120]
    return res


def _c17_confirm(job: Tuple[str, str, str, str, List[str]]) -> Dict[str, Any]:
    """re-run one failing command line as a real process"""
    name, src, base, mode, argv = job
    with workdir(base, src) as (cwd, out):
        r = run_subproc(argv, cwd, out)
        bad = judge(mode, r)
    return {"name": name, "mode": mode, "bad": bad, "exit_status": r["code"], "stderr_tail": r["stderr"][-1500:],
            "stdout_tail": r["stdout"][-300:]}


def map_with_deadline(pool: Any, fn: Any, jobs: List[Any], deadline: float, chunksize: int = 1) -> Tuple[List[Any], int]:
    """ordered results of the longest prefix of `jobs` finished before `deadline` (wall clock), and the number of jobs
    left out.  The tiers have a wall-clock budget and the build machine is shared: whatever is left out is stated in
    the summary, never silently dropped."""
    del chunksize  # imap with chunksize > 1 returns a plain generator without next(timeout)
    it = pool.imap(fn, jobs)
    out: List[Any] = []
    for _ in jobs:
        try:
            out.append(it.next(timeout=max(0.05, deadline - time.time())))
        except mp.TimeoutError:
            break
    return out, len(jobs) - len(out)


def _attribute(cls: str, known_ids: Set[str]) -> Optional[str]:
    fid = CLASS_TO_FINDING.get(cls)
    return fid if fid is not None and fid in known_ids else None


CONFIRM_PER_CLASS = 2
SUBPROCESS_POOL = 8


@standin("C17")
def cli_completes(tier: str = "quick", seed: int = 0, known: Any = None) -> Dict[str, Any]:
    t0 = time.time()
    known_ids = set(known or [])
    n_gen, n_sub = (150, 3) if tier == "quick" else (2000, 100)
    gens = select_programs(n_gen, seed)
    adv = adversarial()
    base = tempfile.mkdtemp(prefix="verif_c17_")
    try:
        # real subprocesses: every adversarial layout (quick: two of the 7 command lines, rotating over the layouts so that
        # every command line meets >= 12 layouts; thorough: all 7) and a stride sample of the generated programs (all 7);
        # in-process: every program (those too), all 7 command lines.
        # Starting `python -m tealer` does not scale beyond a few parallel processes on the build machine (import-bound),
        # hence the smaller pool for the subprocess jobs.
        step = max(1, len(gens) // n_sub)
        sub_sample = [p for i, p in enumerate(gens) if i % step == 0][:n_sub]
        sub_jobs: List[Tuple[str, str, str, bool, Optional[List[str]]]] = []
        names = [m for m, _ in MODES]
        for k, p in enumerate(adv):
            only = [names[(2 * k + seed) % 7], names[(2 * k + 1 + seed) % 7]] if tier == "quick" else None
            sub_jobs.append((p["name"], p["src"], base, True, only))
        for p in sub_sample:
            sub_jobs.append((p["name"], p["src"], base, True, None))
        in_jobs: List[Tuple[str, str, str, bool, Optional[List[str]]]] = [(p["name"], p["src"], base, False, None) for p in adv + gens]
        budget_in, budget_all = (35, 55) if tier == "quick" else (280, 540)
        with mp.get_context("fork").Pool(16) as pool:
            results, left_in = map_with_deadline(pool, _c17_work, in_jobs, t0 + budget_in, 2)
            pool.terminate()
        # in-process failures: the CONFIRM_PER_CLASS shortest programs of every failure class are re-run as real
        # processes; a class none of whose representatives fails as a process is not reported
        by_class: Dict[str, List[Tuple[Dict[str, Any], Dict[str, Any]]]] = {}
        for r in results:
            for f in r["failures"]:
                by_class.setdefault(f["class"], []).append((r, f))
        cjobs = []
        for cls, lst in by_class.items():
            lst.sort(key=lambda rf: (len(rf[0]["src"]), rf[0]["name"]))
            for r, f in lst[:CONFIRM_PER_CLASS]:
                cjobs.append((r["name"], r["src"], base, f["mode"], f["argv"]))
        with mp.get_context("fork").Pool(SUBPROCESS_POOL) as pool:
            confirms = pool.map(_c17_confirm, cjobs, chunksize=1)   # always completed
            sub_results, left_sub = map_with_deadline(pool, _c17_work, sub_jobs, t0 + budget_all, 1)
            pool.terminate()
            results = results + sub_results
    finally:
        shutil.rmtree(base, ignore_errors=True)
    confirmed: Dict[str, int] = {}
    refuted: Set[Tuple[str, str]] = set()
    for (cname, _, _, cmode, _), c in zip(cjobs, confirms):
        cls = next(f["class"] for r in results if r["name"] == cname for f in r["failures"] if f["mode"] == cmode and f["how"] == "in-process")
        if c["bad"] is not None:
            confirmed[cls] = confirmed.get(cls, 0) + 1
        else:
            refuted.add((cname, cmode))
    runs_in = sum(r["runs_inproc"] for r in results)
    runs_sub = sum(r["runs_subproc"] for r in results) + len(confirms)
    attributed: Dict[str, int] = {}
    classes: Dict[str, int] = {}
    first: Dict[str, Dict[str, Any]] = {}
    notes: Dict[str, Any] = {}
    inproc_only: Dict[str, int] = {}
    failures = 0
    for r in results:
        for k, v in r["notes"].items():
            notes.setdefault(k, {"count": 0, "example": v})["count"] += 1
        for f in r["failures"]:
            if f["how"] == "in-process" and (f["class"] not in confirmed or (r["name"], f["mode"]) in refuted):
                inproc_only[f["class"]] = inproc_only.get(f["class"], 0) + 1
                continue
            fid = _attribute(f["class"], known_ids)
            if fid:
                attributed[fid] = attributed.get(fid, 0) + 1
                continue
            failures += 1
            classes[f["class"]] = classes.get(f["class"], 0) + 1
            cur = first.get(f["class"])
            if cur is None or (len(r["src"]), r["name"]) < (len(cur["teal"]), cur["program"]):
                first[f["class"]] = {"property": "C17", "standin": "cli_completes (bounded)", "class": f["class"],
                                     "failure": f["failure"], "program": r["name"], "teal": r["src"],
                                     "command": "tealer " + " ".join(f["argv"]),
                                     "run_as": f["how"] + (" (class confirmed by subprocess re-runs)" if f["how"] == "in-process" else ""),
                                     "exit_status": f["exit_status"], "stderr_tail": f["stderr_tail"],
                                     "stdout_tail": f["stdout_tail"],
                                     "expected": "exit status 0, no traceback" + (", stdout holds a JSON document" if f["mode"] == "detect-json" else "")}
    res: Dict[str, Any] = {
        "summary": {
            "function": "tealer.__main__.main (argparse, fetch_contract, parse_teal, construct_function, all detectors, handle_output "
                        "text+JSON) and the 5 printers (cfg, subroutine-cfg, call-graph, human-summary, transaction-context)",
            "contract": "every subcommand/printer/output format ends with exit status 0 and without a traceback on every valid program; "
                        "`--json -` leaves a parsable JSON document on stdout",
            "bound": f"{len(gens)} programs of gen.programs(k=2, seed={seed}) spread over all 27 shapes and 8 families + {len(adv)} hand-written "
                     f"adversarial layouts, x 7 command lines (detect text, detect --json -, print x5). In-process (main() with patched argv): all "
                     f"{len(adv) + len(gens)} programs; real subprocesses ({PYTHON} -m tealer, PYTHONPATH=/repo, {SUBPROCESS_TIMEOUT}s timeout): all {len(adv)} "
                     f"adversarial layouts x {'2 of the 7 command lines (rotating over the layouts)' if tier == 'quick' else '7'} "
                     f"+ {len(sub_sample)} generated programs x 7, plus a re-run of the {CONFIRM_PER_CLASS} shortest programs of every "
                     f"in-process failure class",
            "evaluations": runs_in + runs_sub, "runs_in_process": runs_in, "runs_subprocess": runs_sub,
            "subprocess_confirmations": {"run": len(confirms), "failed_again": sum(1 for c in confirms if c["bad"] is not None)},
            "programs": len(adv) + len(gens), "exhaustive": False, "failures": failures,
            "left_out_by_wall_clock_budget": {"in_process_programs": left_in, "subprocess_programs": left_sub,
                                              "budget_seconds": [budget_in, budget_all]},
            "failure_classes": classes, "attributed_to_listed_findings": attributed,
            "in_process_failures_not_confirmed_by_subprocess": inproc_only, "notes": notes,
            "seconds": round(time.time() - t0, 1)},
        "violations": [], "known_lines": []}
    for i, cls in enumerate(sorted(first, key=lambda c: (-classes[c], c))[:5]):
        res["violations"].append({"file": f"outputs_C17_{i}.json", "data": first[cls]})
    return res


# =====================================================================================================================
# DOT-subset reader
# =====================================================================================================================

class DotError(Exception):
    pass


class DotGraph:
    def __init__(self) -> None:
        self.name = ""
        self.node_stmts: List[Tuple[str, Dict[str, Any]]] = []   # (id, attrs) per node statement, in order
        self.edges: List[Tuple[str, Optional[str], str, Optional[str], Dict[str, Any]]] = []  # tail, tailport, head, headport, attrs
        self.subgraphs: List[Dict[str, Any]] = []  # {"name", "attrs", "nodes"}
        self.graph_attrs: Dict[str, Any] = {}

    def labelled(self) -> Dict[str, List[Dict[str, Any]]]:
        out: Dict[str, List[Dict[str, Any]]] = {}
        for nid, attrs in self.node_stmts:
            if "label" in attrs:
                out.setdefault(nid, []).append(attrs)
        return out

    def mentioned(self) -> Set[str]:
        s = {nid for nid, _ in self.node_stmts}
        for t, _, h, _, _ in self.edges:
            s.add(t)
            s.add(h)
        return s


class Html(str):
    """an HTML-like label `<...>` (kept verbatim, without the outer angle brackets)"""


_ID_TOKEN = re.compile("[A-Za-z_\\u0080-\\uffff][A-Za-z_0-9\\u0080-\\uffff]*|-?(?:\\.[0-9]+|[0-9]+(?:\\.[0-9]*)?)")


def _dot_tokens(text: str) -> List[Tuple[str, Any]]:
    toks: List[Tuple[str, Any]] = []
    i, n = 0, len(text)
    while i < n:
        ch = text[i]
        if ch.isspace():
            i += 1
        elif text.startswith("//", i):
            j = text.find("\n", i)
            i = n if j < 0 else j
        elif text.startswith("/*", i):
            j = text.find("*/", i)
            if j < 0:
                raise DotError("unterminated comment")
            i = j + 2
        elif text.startswith("->", i) or text.startswith("--", i):
            toks.append(("op", text[i:i + 2]))
            i += 2
        elif ch in "{}[];,=:":
            toks.append(("p", ch))
            i += 1
        elif ch == '"':
            j = i + 1
            buf = []
            while j < n and text[j] != '"':
                if text[j] == "\\" and j + 1 < n and text[j + 1] == '"':
                    buf.append('"')
                    j += 2
                else:
                    buf.append(text[j])
                    j += 1
            if j >= n:
                raise DotError("unterminated string")
            toks.append(("id", "".join(buf)))
            i = j + 1
        elif ch == "<":
            depth, j = 0, i
            while j < n:
                if text[j] == "<":
                    depth += 1
                elif text[j] == ">":
                    depth -= 1
                    if depth == 0:
                        break
                j += 1
            if j >= n:
                raise DotError("unterminated HTML string")
            toks.append(("id", Html(text[i + 1:j])))
            i = j + 1
        else:
            m = _ID_TOKEN.match(text, i)
            if not m:
                raise DotError(f"unexpected character {ch!r} at offset {i}")
            toks.append(("id", m.group(0)))
            i = m.end()
    return toks


def read_dot(text: str) -> DotGraph:
    """Reader for the subset of DOT that tealer emits (and a bit more): [strict] digraph [ID] { stmts }, node and edge
    statements with optional ports and attribute lists, `ID = ID`, graph/node/edge default-attribute statements,
    (anonymous) subgraphs, optional `;`, quoted / numeric / HTML-like ids, comments."""
    toks = _dot_tokens(text)
    pos = 0
    g = DotGraph()

    def peek(k: int = 0) -> Tuple[str, Any]:
        return toks[pos + k] if pos + k < len(toks) else ("eof", None)

    def take(kind: Optional[str] = None, val: Optional[str] = None) -> Tuple[str, Any]:
        nonlocal pos
        t = peek()
        if (kind is not None and t[0] != kind) or (val is not None and t[1] != val):
            raise DotError(f"expected {kind} {val}, found {t} at token {pos}")
        pos += 1
        return t

    def attr_list() -> Dict[str, Any]:
        attrs: Dict[str, Any] = {}
        while peek() == ("p", "["):
            take()
            while peek() != ("p", "]"):
                k = take("id")[1]
                if peek() == ("p", "="):
                    take()
                    attrs[str(k)] = take("id")[1]
                else:
                    attrs[str(k)] = "true"
                if peek() in (("p", ","), ("p", ";")):
                    take()
            take("p", "]")
        return attrs

    def endpoint() -> Tuple[str, Optional[str]]:
        nid = str(take("id")[1])
        port = None
        if peek() == ("p", ":"):
            take()
            port = str(take("id")[1])
            if peek() == ("p", ":"):
                take()
                take("id")  # compass point
        return nid, port

    def stmt_list(sub: Optional[Dict[str, Any]]) -> None:
        while peek() != ("p", "}"):
            if peek()[0] == "eof":
                raise DotError("unexpected end of file")
            t = peek()
            if t == ("p", ";"):
                take()
                continue
            if t[0] == "id" and not isinstance(t[1], Html) and t[1] == "subgraph" or t == ("p", "{"):
                name = ""
                if t != ("p", "{"):
                    take()
                    if peek()[0] == "id":
                        name = str(take()[1])
                take("p", "{")
                s = {"name": name, "attrs": {}, "nodes": set()}
                g.subgraphs.append(s)
                stmt_list(s)
                take("p", "}")
                continue
            if t[0] != "id":
                raise DotError(f"unexpected token {t}")
            if t[1] in ("graph", "node", "edge") and peek(1) == ("p", "["):
                take()
                a = attr_list()
                if t[1] == "graph":
                    (sub["attrs"] if sub is not None else g.graph_attrs).update(a)
                continue
            if peek(1) == ("p", "="):
                k = str(take()[1])
                take()
                v = take("id")[1]
                (sub["attrs"] if sub is not None else g.graph_attrs)[k] = v
                continue
            first = endpoint()
            chain = [first]
            while peek()[0] == "op":
                take()
                chain.append(endpoint())
            attrs = attr_list()
            if len(chain) == 1:
                g.node_stmts.append((first[0], attrs))
                if sub is not None:
                    sub["nodes"].add(first[0])
            else:
                for (a, ap), (b, bp) in zip(chain, chain[1:]):
                    g.edges.append((a, ap, b, bp, attrs))
                    if sub is not None:
                        sub["nodes"].update((a, b))

    if peek() == ("id", "strict"):
        take()
    kind = take("id")[1]
    if kind not in ("digraph", "graph"):
        raise DotError(f"not a graph: {kind}")
    if peek()[0] == "id":
        g.name = str(take()[1])
    take("p", "{")
    stmt_list(None)
    take("p", "}")
    if peek()[0] != "eof":
        raise DotError("text after the closing brace")
    return g


_ROW = re.compile(r"<TR><TD ([^>]*)>(.*?)</TD></TR>", re.S)
_TAGS = re.compile(r"</?[BI]>")


def read_block_label(label: str) -> Dict[str, Any]:
    """Read the HTML table tealer draws for a block: border colour, port of the head cell, the tealer comments of the
    head cell, and one (line number, source text) pair per instruction row (comment lines above an instruction are
    separated from it by <BR/>; the last <BR/>-separated piece of a row is `<line>. <text>`)."""
    m = re.match(r'\s*<TABLE ALIGN="LEFT" COLOR="([^"]*)">', label)
    if not m:
        raise DotError("label is not a block table")
    out: Dict[str, Any] = {"border": m.group(1), "port": None, "comments": [], "rows": []}
    rows = _ROW.findall(label)
    if not rows:
        raise DotError("block table without rows")
    head_attrs, head = rows[0]
    pm = re.search(r'PORT="([^"]*)"', head_attrs)
    if not pm:
        raise DotError("head cell without PORT")
    out["port"] = pm.group(1)
    out["comments"] = [html.unescape(c)[3:] if html.unescape(c).startswith("// ") else html.unescape(c)
                       for c in _TAGS.sub("", head).split("<BR/>") if c != ""]
    for attrs, cell in rows[1:]:
        if 'PORT="' in attrs:
            raise DotError("second cell with PORT")
        pieces = _TAGS.sub("", cell).split("<BR/>")
        im = re.fullmatch(r"(\d+)\. (.*)", pieces[-1], re.S)
        if not im:
            raise DotError(f"instruction row not of the form `<line>. <text>`: {pieces[-1]!r}")
        cm = re.search(r'\bCOLOR="([^"]*)"', attrs)
        out["rows"].append((int(im.group(1)), html.unescape(im.group(2)), [html.unescape(x) for x in pieces[:-1]],
                            cm.group(1) if cm else None))
    return out


def graphviz_view(path: str) -> Optional[Tuple[List[str], List[Tuple[str, str]]]]:
    """(node names, edges) as graphviz itself reads the file, or None if graphviz is not usable"""
    exe = shutil.which("dot")
    if not exe:
        return None
    try:
        p = subprocess.run([exe, "-Tdot_json", path], capture_output=True, text=True, timeout=60, check=False)
        if p.returncode != 0:
            return None
        doc = json.loads(p.stdout)
    except Exception:  # pylint: disable=broad-except
        return None
    objs = doc.get("objects", [])
    names = {o["_gvid"]: o["name"] for o in objs}
    nodes = sorted(o["name"] for o in objs if "nodes" not in o and "subgraphs" not in o and not o["name"].startswith("cluster_"))
    edges = sorted((names[e["tail"]], names[e["head"]]) for e in doc.get("edges", []))
    return nodes, edges


# =====================================================================================================================
# C18
# =====================================================================================================================

class _Capture:
    """wraps tealer.__main__.init_tealer_from_single_contract inside the worker so that the Tealer object built by the
    CLI run, and the detector results it computed, can be compared with what the run exported"""

    def __init__(self) -> None:
        self.tealer: Any = None
        self.results: Any = None

    @contextlib.contextmanager
    def installed(self) -> Iterator["_Capture"]:
        import tealer.__main__ as tm
        orig = tm.init_tealer_from_single_contract
        cap = self

        def wrapper(src: str, name: str) -> Any:
            t = orig(src, name)
            cap.tealer = t
            run = t.run_detectors

            def run_detectors() -> Any:
                r = run()
                # paths as computed, before --filter-paths edits the result objects in place
                cap.results = [[(o.detector.NAME, type(o).__name__, [list(p) for p in getattr(o, "paths", [])]) for o in lst]
                               for lst in r]
                return r
            t.run_detectors = run_detectors
            return t
        tm.init_tealer_from_single_contract = wrapper
        self.tealer = self.results = None
        try:
            yield self
        finally:
            tm.init_tealer_from_single_contract = orig


def _exit_kind(b: Any) -> str:
    from tealer.teal.instructions.instructions import Callsub, Retsub
    if isinstance(b.exit_instr, Callsub):
        return "callsub"
    if isinstance(b.exit_instr, Retsub):
        return "retsub"
    return "other"


def internal_global_edges(teal: Any) -> Set[Tuple[int, int]]:
    """global graph of the retained blocks (C04/C05): b.next, except that a callsub block leads to the entry of the
    called subroutine and a retsub block to the return points of all retained call sites of its subroutine"""
    edges: Set[Tuple[int, int]] = set()
    for b in teal.bbs:
        kind = _exit_kind(b)
        if kind == "callsub":
            edges.add((b.idx, b.called_subroutine.entry.idx))
        elif kind == "retsub":
            sub = b.subroutine
            for c in teal.bbs:
                if _exit_kind(c) == "callsub" and c.called_subroutine is sub and c.next:
                    edges.add((b.idx, c.next[0].idx))
        else:
            for nb in b.next:
                edges.add((b.idx, nb.idx))
    return edges


def function_global_edges(function: Any) -> Set[Tuple[int, int]]:
    from tealer.utils.analyses import next_blocks_global
    return {(b.idx, nb.idx) for b in function.blocks for nb in next_blocks_global(function, b)}


def _check_block_nodes(g: DotGraph, blocks: Sequence[Any], src_lines: List[str], what: str,
                       extra_ok: Set[str]) -> Iterator[Tuple[str, str]]:
    """one labelled node per block, nothing else; label rows = the block's instructions (line number, source text)"""
    lab = g.labelled()
    want = {str(b.idx): b for b in blocks}
    if len(want) != len(blocks):
        yield f"{what}-internal-duplicate-idx", "two internal blocks share an idx"
    for nid, defs in lab.items():
        if nid in extra_ok:
            continue
        if nid not in want:
            yield f"{what}-extra-node", f"node {nid} is drawn but is no block of the internal graph {sorted(want, key=int)}"
        elif len(defs) != 1:
            yield f"{what}-node-drawn-twice", f"block {nid} is drawn {len(defs)} times"
    for nid in want:
        if nid not in lab:
            yield f"{what}-missing-node", f"block {nid} of the internal graph is not drawn"
    for nid in sorted(g.mentioned() - set(lab), key=str):
        yield f"{what}-phantom-node", f"node {nid} is referenced (edge or cluster) but never drawn: graphviz creates an empty node"
    for s in g.subgraphs:
        for nid in s["nodes"]:
            if nid not in lab:
                yield f"{what}-phantom-node", f"cluster {s['name']} names node {nid} which is never drawn"
    for nid, b in want.items():
        if nid not in lab or len(lab[nid]) != 1:
            continue
        label = lab[nid][0]["label"]
        if not isinstance(label, Html):
            yield f"{what}-label-not-table", f"block {nid}: label is not an HTML table"
            continue
        try:
            info = read_block_label(label)
        except DotError as e:
            yield f"{what}-label-unreadable", f"block {nid}: {e}"
            continue
        lines_internal = [ins.line for ins in b.instructions]
        shown = [(ln, txt) for ln, txt, _, _ in info["rows"]]
        if [ln for ln, _ in shown] != lines_internal:
            yield f"{what}-label-lines", f"block {nid} shows lines {[ln for ln, _ in shown]}, the block holds lines {lines_internal}"
            continue
        for ln, txt in shown:
            expect = src_lines[ln - 1].strip() if 0 < ln <= len(src_lines) else None
            if expect is None or " ".join(txt.split()) != " ".join(expect.split()):
                yield f"{what}-label-text", f"block {nid} line {ln} shows {txt!r}, the source line is {expect!r}"
                break
        if info["port"] != str(lines_internal[0]):
            yield f"{what}-port", f"block {nid}: head cell port {info['port']} is not the entry line {lines_internal[0]}"


def _check_ports(g: DotGraph, blocks: Sequence[Any], what: str) -> Iterator[Tuple[str, str]]:
    entry = {str(b.idx): str(b.instructions[0].line) for b in blocks}
    for t, tp, h, hp, _ in g.edges:
        if h in entry and hp not in (None, "n", entry[h]):
            yield f"{what}-edge-port", f"edge {t}->{h} points at port {hp}; block {h} only has port {entry[h]}"
        if t in entry and tp not in (None, "s"):
            yield f"{what}-edge-port", f"edge {t}->{h} leaves from port {tp}"


def check_full_cfg(text: str, teal: Any, function: Any, src_lines: List[str], what: str = "cfg") -> List[Tuple[str, str]]:
    out: List[Tuple[str, str]] = []
    try:
        g = read_dot(text)
    except DotError as e:
        return [(f"{what}-not-dot", f"file is not readable as DOT: {e}")]
    out += list(_check_block_nodes(g, teal.bbs, src_lines, what, set()))
    out += list(_check_ports(g, teal.bbs, what))
    try:
        drawn = {(int(t), int(h)) for t, _, h, _, _ in g.edges}
    except ValueError:
        return out + [(f"{what}-edge-endpoint", "an edge endpoint is not a block id")]
    want = internal_global_edges(teal)
    if drawn != want:
        out.append((f"{what}-edge-set", f"drawn edges differ from the global graph of the retained blocks: missing {sorted(want - drawn)}, "
                                        f"extra {sorted(drawn - want)}"))
    fn_edges = function_global_edges(function)
    if not fn_edges <= drawn:
        out.append((f"{what}-edge-set-vs-next_blocks_global", f"edges of next_blocks_global not drawn: {sorted(fn_edges - drawn)}"))
    elif {b.idx for b in function.blocks} == {b.idx for b in teal.bbs} and fn_edges != drawn:
        out.append((f"{what}-edge-set-vs-next_blocks_global", f"drawn edges that next_blocks_global does not have: {sorted(drawn - fn_edges)}"))
    return out


def _callee_in_source(src_lines: List[str], line: int) -> Optional[str]:
    toks = src_lines[line - 1].split("//")[0].split() if 0 < line <= len(src_lines) else []
    return toks[1] if len(toks) >= 2 and toks[0] == "callsub" else None


def check_sub_cfg(text: str, sub: Any, src_lines: List[str], what: str = "subcfg") -> List[Tuple[str, str]]:
    out: List[Tuple[str, str]] = []
    try:
        g = read_dot(text)
    except DotError as e:
        return [(f"{what}-not-dot", f"file is not readable as DOT: {e}")]
    ids = {str(b.idx) for b in sub.blocks}
    lab = g.labelled()
    boxes = {nid: defs for nid, defs in lab.items() if nid not in ids and any(d.get("shape") == "box" for d in defs)}
    out += list(_check_block_nodes(g, sub.blocks, src_lines, what, set(boxes)))
    out += list(_check_ports(g, sub.blocks, what))
    plain = {(t, h) for t, _, h, _, _ in g.edges if t not in boxes and h not in boxes}
    want_plain = {(str(b.idx), str(nb.idx)) for b in sub.blocks if _exit_kind(b) != "callsub" for nb in b.next}
    if plain != want_plain:
        out.append((f"{what}-edge-set", f"subroutine {sub.name}: drawn local edges differ: missing {sorted(want_plain - plain)}, "
                                        f"extra {sorted(plain - want_plain)}"))
    sites = [b for b in sub.blocks if _exit_kind(b) == "callsub"]
    if len(boxes) != len(sites):
        out.append((f"{what}-call-box-count", f"subroutine {sub.name}: {len(boxes)} call boxes for {len(sites)} call sites"))
    used: Set[str] = set()
    for b in sites:
        mine = sorted({h for t, _, h, _, _ in g.edges if t == str(b.idx) and h in boxes})
        if len(mine) != 1:
            out.append((f"{what}-call-box", f"call site block {b.idx} has edges to {len(mine)} call boxes"))
            continue
        box = mine[0]
        if box in used:
            out.append((f"{what}-call-box", f"call box {box} is shared by two call sites"))
        used.add(box)
        n_in = [t for t, _, h, _, _ in g.edges if h == box]
        if n_in != [str(b.idx)]:
            out.append((f"{what}-call-box", f"call box {box} has incoming edges from {n_in}"))
        outs = sorted(h for t, _, h, _, _ in g.edges if t == box)
        want_out = [str(b.next[0].idx)] if b.next else []
        if outs != want_out:
            out.append((f"{what}-call-box", f"call box of block {b.idx} leads to {outs}, the return point is {want_out}"))
        callee = _callee_in_source(src_lines, b.instructions[-1].line)
        if callee is not None and len(boxes[box]) == 1 and boxes[box][0].get("label") != f"Subroutine {callee}":
            out.append((f"{what}-call-box", f"call box of block {b.idx} is labelled {boxes[box][0].get('label')!r}, the source calls {callee}"))
    return out


def _expand_ranges(s: str) -> Set[int]:
    vals: Set[int] = set()
    for tok in s.split():
        if ".." in tok:
            a, b = tok.split("..")
            vals.update(range(int(a), int(b) + 1))
        else:
            vals.add(int(tok))
    return vals


_TEXT_PATH = re.compile(r"^\t\t path: (.*)$", re.M)
_TEXT_FILE = re.compile(r"^\t\t check file: (.*)$", re.M)
_TEXT_CHECK = re.compile(r'^Check: "([^"]+)"', re.M)

# blanks are the only delimiters of block ids in the short notation: patterns with leading / trailing blanks are meaningful
FILTER_PATTERNS = ["B0", "2", "0 -> 1", "", "-> 1 ", "^0", "3$", "1 -> .* -> 4", r"\b1\b", "7|9", " 1 ->", " "]


def _c18_work(job: Tuple[str, str, str, bool]) -> Dict[str, Any]:
    name, src, base, all_patterns = job
    res: Dict[str, Any] = {"name": name, "src": src, "checks": {}, "violations": [], "crashes": [], "runs": 0,
                           "dot_files": [], "notes": {}}
    src_lines = src.split("\n")

    def viol(cls: str, msg: str, **extra: Any) -> None:
        res["violations"].append({"class": cls, "failure": msg, **extra})

    def count(k: str, n: int = 1) -> None:
        res["checks"][k] = res["checks"].get(k, 0) + n

    cap = _Capture()
    with workdir(base, src) as (cwd, out), cap.installed():
        def cli(argv: List[str]) -> Optional[Dict[str, Any]]:
            res["runs"] += 1
            r = run_inproc(argv, cwd, out)
            if r["code"] != 0 or "Traceback (most recent call last)" in r["stderr"]:
                res["crashes"].append({"argv": argv, "class": classify_traceback(_mode_of(argv), r["stderr"]),
                                       "tail": r["stderr"][-300:]})
                return None
            return r

        root = os.path.join(out, "f")
        # ---- (a) cfg
        r = cli(["print", "cfg", "--contracts", "f.teal"])
        if r is not None:
            teal = cap.tealer.contracts["f"]
            function = teal.functions["f"]
            path = os.path.join(root, "full_cfg.dot")
            if not os.path.exists(path):
                viol("cfg-file-missing", f"`print cfg` did not write {path}")
            else:
                text = open(path, encoding="utf-8").read()
                count("cfg_files")
                count("cfg_blocks", len(teal.bbs))
                for cls, msg in check_full_cfg(text, teal, function, src_lines):
                    viol(cls, msg, command="tealer print cfg --contracts f.teal", file="full_cfg.dot")
                res["dot_files"].append(("full_cfg.dot", text))
        # ---- (b) subroutine-cfg
        r = cli(["print", "subroutine-cfg", "--contracts", "f.teal"])
        if r is not None:
            teal = cap.tealer.contracts["f"]
            d = os.path.join(root, "print-subroutine-cfg")
            want_files = {"contract_shortened_cfg.dot": teal.main}
            for sname, sub in teal.subroutines.items():
                want_files[f"subroutine_{sname}_cfg.dot"] = sub
            have = set(os.listdir(d)) if os.path.isdir(d) else set()
            if have != set(want_files):
                viol("subcfg-files", f"files written {sorted(have)} != one per subroutine {sorted(want_files)}")
            for fn, sub in want_files.items():
                if fn in have:
                    text = open(os.path.join(d, fn), encoding="utf-8").read()
                    count("subcfg_files")
                    for cls, msg in check_sub_cfg(text, sub, src_lines):
                        viol(cls, msg, command="tealer print subroutine-cfg --contracts f.teal", file=fn)
                    if len(res["dot_files"]) < 3:
                        res["dot_files"].append((fn, text))
        # ---- (f) block annotations of the transaction-context printer (only when the printer completes)
        r = cli(["print", "transaction-context", "--contracts", "f.teal"])
        if r is None:
            res["crashes"].pop()  # C17's business (D7); recorded as a skipped check only
            count("annotation_checks_skipped_printer_crashed")
        else:
            teal = cap.tealer.contracts["f"]
            function = teal.functions["f"]
            path = os.path.join(root, "print-transaction-context", "transaction-context.dot")
            try:
                g = read_dot(open(path, encoding="utf-8").read())
                by_idx = {b.idx: b for b in function.blocks}
                for nid, defs in g.labelled().items():
                    if not nid.isdigit() or int(nid) not in by_idx or not isinstance(defs[0]["label"], Html):
                        continue
                    info = read_block_label(defs[0]["label"])
                    ctx = function.transaction_context(by_idx[int(nid)])
                    shown = {c.split(":")[0]: c.split(":", 1)[1] for c in info["comments"] if c.startswith(("GroupIndex:", "GroupSize:"))}
                    count("annotation_blocks")
                    if set(shown) != {"GroupIndex", "GroupSize"}:
                        viol("annotation-missing", f"block {nid} lacks the GroupIndex/GroupSize annotation: {info['comments']}")
                    elif _expand_ranges(shown["GroupIndex"]) != set(ctx.group_indices) or _expand_ranges(shown["GroupSize"]) != set(ctx.group_sizes):
                        viol("annotation-differs", f"block {nid} shows GroupIndex {shown['GroupIndex']!r} GroupSize {shown['GroupSize']!r}; "
                                                   f"computed {sorted(ctx.group_indices)} / {sorted(ctx.group_sizes)}")
            except (DotError, OSError, ValueError) as e:
                viol("annotation-unreadable", f"transaction-context.dot: {e}")
        # ---- (c) text-mode detect: one DOT per reported path, marking exactly the path
        r = cli(["detect", "--contracts", "f.teal"])
        text_paths: Dict[str, List[str]] = {}
        if r is not None:
            teal = cap.tealer.contracts["f"]
            all_ids = {b.idx for b in teal.bbs}
            # stdout: per detector the printed notations
            cur_det = None
            for ln in r["stdout"].split("\n"):
                m = _TEXT_CHECK.match(ln)
                if m:
                    cur_det = m.group(1)
                    text_paths.setdefault(cur_det, [])
                m = _TEXT_PATH.match(ln)
                if m and cur_det is not None:
                    text_paths[cur_det].append(m.group(1))
            for lst in cap.results or []:
                for det, kind, paths in lst:
                    if kind != "ExecutionPaths":
                        continue
                    shorts = [" -> ".join(str(b.idx) for b in p) for p in paths]
                    if text_paths.get(det, []) != shorts:
                        viol("text-path-lines", f"{det}: printed paths {text_paths.get(det, [])} != computed paths {shorts}")
                    ddir = os.path.join(root, det)
                    have = sorted(os.listdir(ddir)) if os.path.isdir(ddir) else []
                    want = sorted(f"{det}-{i}.dot" for i in range(1, len(paths) + 1))
                    if have != want:
                        viol("path-dot-files", f"{det}: files {have} != one per reported path {want}")
                    for i, p in enumerate(paths, start=1):
                        fpath = os.path.join(ddir, f"{det}-{i}.dot")
                        if not os.path.exists(fpath):
                            continue
                        count("path_dot_files")
                        try:
                            g = read_dot(open(fpath, encoding="utf-8").read())
                            red = set()
                            for nid, defs in g.labelled().items():
                                info = read_block_label(defs[0]["label"])
                                if info["border"].upper() == "RED" or any(c and c.upper() == "RED" for _, _, _, c in info["rows"]):
                                    red.add(int(nid))
                        except (DotError, ValueError) as e:
                            viol("path-dot-unreadable", f"{det}-{i}.dot: {e}")
                            continue
                        want_red = {b.idx for b in p}
                        if red != want_red:
                            main_ids = {b.idx for b in teal.main.blocks}
                            missing, extra = want_red - red, red - want_red
                            if not extra and missing and missing == want_red & main_ids:
                                cls = "path-dot-highlight-misses-main-blocks"
                            else:
                                cls = "path-dot-highlight-differs"
                            viol(cls, f"{det}-{i}.dot marks blocks {sorted(red)}; the reported path {shorts[i - 1]} has blocks {sorted(want_red)} "
                                      f"(not marked: {sorted(missing)}, wrongly marked: {sorted(extra)}; all blocks {sorted(all_ids)})",
                                 command="tealer detect --contracts f.teal", file=f"{det}/{det}-{i}.dot")
        # ---- (d) JSON
        base_json: Optional[Dict[str, Any]] = None
        r = cli(["--json", "-", "detect", "--contracts", "f.teal"])
        if r is not None:
            teal = cap.tealer.contracts["f"]
            doc, pre, err = extract_json(r["stdout"])
            if pre:
                res["notes"]["json-stdout-has-preamble"] = r["stdout"].split("\n")[0][:120]
            if doc is None:
                viol("json-unreadable", f"--json -: {err}")
            else:
                base_json = doc
                count("json_documents")
                if doc.get("success") is not True or doc.get("error") is not None:
                    viol("json-success-inverted-on-success", f"run without error: success={doc.get('success')!r} error={doc.get('error')!r}; expected success=true",
                         command="tealer --json - detect --contracts f.teal")
                lines_to_idx = {tuple(i.line for i in b.instructions): b.idx for b in teal.bbs}
                internal = {det: [" -> ".join(str(b.idx) for b in p) for p in paths]
                            for lst in (cap.results or []) for det, kind, paths in lst if kind == "ExecutionPaths"}
                for item in doc.get("result", []):
                    if "paths" not in item:
                        continue
                    count("json_results")
                    if item.get("count") != len(item["paths"]):
                        viol("json-count", f"{item.get('check')}: count={item.get('count')} but {len(item['paths'])} paths are listed")
                    if item.get("type") != "ExecutionPaths":
                        continue
                    shorts = []
                    for p in item["paths"]:
                        shorts.append(p.get("short"))
                        ids = []
                        for blk in p.get("blocks", []):
                            try:
                                key = tuple(int(s.split(":", 1)[0]) for s in blk)
                            except ValueError:
                                key = ()
                            ids.append(lines_to_idx.get(key))
                        if None in ids:
                            viol("json-blocks", f"{item.get('check')}: a listed block of path {p.get('short')!r} is no block of the internal graph")
                        elif " -> ".join(map(str, ids)) != p.get("short"):
                            viol("json-short", f"{item.get('check')}: short {p.get('short')!r} but the listed blocks are {ids}")
                        count("json_paths")
                    if internal.get(item.get("check")) != shorts:
                        viol("json-paths-vs-internal", f"{item.get('check')}: JSON lists {shorts}, computed {internal.get(item.get('check'))}")
                    if text_paths and text_paths.get(item.get("check"), []) != shorts:
                        viol("json-paths-vs-text", f"{item.get('check')}: JSON lists {shorts}, text mode printed {text_paths.get(item.get('check'), [])}")
            # error run: an unknown detector name raises TealerException inside main(), which handle_output reports
            r2 = cli(["--json", "-", "detect", "--detectors", "no-such-detector", "--contracts", "f.teal"])
            if r2 is not None:
                doc2, _, err2 = extract_json(r2["stdout"])
                if doc2 is None:
                    viol("json-unreadable", f"--json - (error run): {err2}")
                else:
                    count("json_error_documents")
                    if doc2.get("error") is None:
                        viol("json-error-not-reported", "unknown detector: error is null")
                    elif doc2.get("success") is not False:
                        viol("json-success-inverted-on-error", f"run with error {doc2.get('error')!r}: success={doc2.get('success')!r}; expected false",
                             command="tealer --json - detect --detectors no-such-detector --contracts f.teal")
        # ---- (e) --filter-paths
        if base_json is not None:
            base_shorts = {it["check"]: [p["short"] for p in it["paths"]] for it in base_json.get("result", [])
                           if it.get("type") == "ExecutionPaths"}
            allshorts = [s for v in base_shorts.values() for s in v]
            if max((len(v) for v in base_shorts.values()), default=0) >= 2:
                pats = list(FILTER_PATTERNS) if all_patterns else list(FILTER_PATTERNS[:5])
                longest = max(allshorts, key=len)
                if all_patterns:
                    pats += ["^" + re.escape(longest) + "$", re.escape(longest.split(" -> ")[-1]) + "$",
                             " -> ".join(longest.split(" -> ")[1:3])]
                for pat in dict.fromkeys(pats):
                    rf = cli(["--json", "-", "detect", "--filter-paths", pat, "--contracts", "f.teal"])
                    if rf is None:
                        continue
                    docf, _, _ = extract_json(rf["stdout"])
                    if docf is None:
                        viol("json-unreadable", f"--filter-paths {pat!r}: stdout holds no JSON")
                        continue
                    count("filter_runs")
                    got = {it["check"]: [p["short"] for p in it["paths"]] for it in docf.get("result", [])
                           if it.get("type") == "ExecutionPaths"}
                    for det, shorts in base_shorts.items():
                        want = [s for s in shorts if re.search(pat, s) is None]
                        count("filter_comparisons")
                        if got.get(det) != want:
                            cls = "filter-empty-pattern-keeps-all" if pat == "" else "filter-paths-differs"
                            viol(cls, f"--filter-paths {pat!r}, {det}: unfiltered {shorts}; left {got.get(det)}; "
                                      f"re.search removes exactly {[s for s in shorts if s not in want]} leaving {want}",
                                 command=f"tealer --json - detect --filter-paths {pat!r} --contracts f.teal")
                            break
    return res


def _self_check_reader(samples: List[Tuple[str, str]], base: str) -> Dict[str, Any]:
    """compare read_dot with graphviz's own reading of the same files (node names, edge multiset)"""
    checked = disagreements = 0
    first = None
    for fn, text in samples:
        p = os.path.join(base, f"selfcheck_{checked}_{os.path.basename(fn)}")
        with open(p, "w", encoding="utf-8") as f:
            f.write(text)
        gv = graphviz_view(p)
        if gv is None:
            continue
        checked += 1
        g = read_dot(text)
        mine = (sorted(g.mentioned()), sorted((t, h) for t, _, h, _, _ in g.edges))
        if mine != (gv[0], gv[1]):
            disagreements += 1
            first = first or {"file": fn, "reader": mine, "graphviz": gv}
    return {"files_compared_with_graphviz": checked, "disagreements": disagreements, "first": first}


def _oracle_unit_checks() -> None:
    """hand-computed cases for the reader (a problem here is a problem of the oracle, not of tealer)"""
    g = read_dot('digraph g{\n ranksep = 1 \n subgraph cluster_0 { label = "S f"; graph[style=dashed]; 3 4; }\n'
                 '0[label=<<TABLE ALIGN="LEFT" COLOR="RED">\n<TR><TD COLOR="BLACK" PORT="1" BORDER="2"><B>// block_id = 0; cost = 2<BR/>// x</B></TD></TR>\n'
                 '<TR><TD ALIGN="LEFT" COLOR="BLACK">// c<BR/>1. int 1 &lt; 2</TD></TR>\n<TR><TD ALIGN="LEFT" COLOR="BLACK">2. <B><I>callsub f</I></B></TD></TR>\n'
                 '</TABLE>> labelloc=top shape=plain\n] 0:s -> 3:5:n [color="BLACK"];\n0:s -> 4:7:n;\nx0_1[label="Subroutine f",style=dashed,shape=box] 0:s -> x0_1:n;\n}')
    assert [n for n, _ in g.node_stmts] == ["3", "4", "0", "x0_1"], g.node_stmts
    assert [(t, tp, h, hp) for t, tp, h, hp, _ in g.edges] == [("0", "s", "3", "5"), ("0", "s", "4", "7"), ("0", "s", "x0_1", "n")], g.edges
    assert g.subgraphs[0]["nodes"] == {"3", "4"} and g.subgraphs[0]["attrs"]["label"] == "S f"
    info = read_block_label(g.labelled()["0"][0]["label"])
    assert info["border"] == "RED" and info["port"] == "1" and info["comments"] == ["block_id = 0; cost = 2", "x"], info
    assert [(a, b, c) for a, b, c, _ in info["rows"]] == [(1, "int 1 < 2", ["// c"]), (2, "callsub f", [])], info
    assert _expand_ranges("0 1 2 5..9 11") == {0, 1, 2, 5, 6, 7, 8, 9, 11}
    assert classify_traceback("m", 'Traceback (most recent call last):\n  File "/repo/tealer/teal/functions.py", line 71, in transaction_context\n'
                                   "    return x\nKeyError: B0\n") == "m:KeyError@teal/functions.py:transaction_context"


@standin("C18")
def exports_faithful(tier: str = "quick", seed: int = 0, known: Any = None) -> Dict[str, Any]:
    t0 = time.time()
    known_ids = set(known or [])
    _oracle_unit_checks()
    n_gen = 300 if tier == "quick" else 3000
    progs = adversarial() + large_layout_programs(seed, 24 if tier == "quick" else 240) + select_programs(n_gen, seed)
    base = tempfile.mkdtemp(prefix="verif_c18_")
    try:
        with mp.get_context("fork").Pool(16) as pool:
            # quick: every third program gets the whole pattern list, the others the 4 patterns of the task statement
            budget = 50 if tier == "quick" else 560
            results, left_out = map_with_deadline(pool, _c18_work, [(p["name"], p["src"], base, tier != "quick" or k % 3 == 0)
                                                                     for k, p in enumerate(progs)], t0 + budget, 2)
            pool.terminate()
        samples = [df for r in results[:: max(1, len(results) // 12)] for df in r["dot_files"]][:24 if tier == "quick" else 120]
        self_check = _self_check_reader(samples, base)
    finally:
        shutil.rmtree(base, ignore_errors=True)
    checks: Dict[str, int] = {}
    attributed: Dict[str, int] = {}
    classes: Dict[str, int] = {}
    crash_classes: Dict[str, int] = {}
    first: Dict[str, Dict[str, Any]] = {}
    notes: Dict[str, Any] = {}
    failures = 0
    runs = 0
    for r in results:
        runs += r["runs"]
        for k, v in r["checks"].items():
            checks[k] = checks.get(k, 0) + v
        for k, v in r["notes"].items():
            notes.setdefault(k, {"count": 0, "example": v})["count"] += 1
        for c in r["crashes"]:
            crash_classes[c["class"]] = crash_classes.get(c["class"], 0) + 1
        for v in r["violations"]:
            fid = _attribute(v["class"], known_ids)
            if fid:
                attributed[fid] = attributed.get(fid, 0) + 1
                continue
            failures += 1
            classes[v["class"]] = classes.get(v["class"], 0) + 1
            cur = first.get(v["class"])
            if cur is None or len(r["src"]) < len(cur["teal"]):
                first[v["class"]] = {"property": "C18", "standin": "exports_faithful (bounded)", "program": r["name"], "teal": r["src"], **v}
    if self_check["disagreements"]:
        # the reader itself is in doubt: report nothing that depends on it
        raise AssertionError(f"DOT reader disagrees with graphviz: {self_check['first']}")
    res: Dict[str, Any] = {
        "summary": {
            "function": "tealer.utils.output (_bb_to_dot, full_cfg_to_dot, subroutine_to_dot, all_subroutines_to_dot, ExecutionPaths.generate_output/"
                        "to_json/filter_paths), printers cfg / subroutine-cfg / transaction-context, __main__.handle_output, through tealer.__main__.main",
            "contract": "the exported DOT files, read back, have exactly the internal blocks (rows = line number + source text) and the global / local edge "
                        "sets with one call box per call site; each path file marks exactly the path's blocks; JSON: success <=> no error, count = "
                        "#paths, short = ids of the listed blocks = text-mode notation; --filter-paths P leaves exactly the paths with re.search(P, short) is None",
            "bound": f"{len(progs)} programs (gen.programs(k=2, seed={seed}) spread over all shapes + {len(_ADVERSARIAL)} adversarial layouts + "
                     f"{24 if tier == 'quick' else 240} handlers-first layouts with 11..28 blocks); "
                     f"per program: print cfg, print subroutine-cfg, print transaction-context, detect (text), detect --json -, detect with an unknown detector "
                     f"(error envelope), and for programs where some detector reports >= 2 paths the --filter-paths patterns {FILTER_PATTERNS[:5]} "
                     f"(every program) and {FILTER_PATTERNS[5:]} + 3 patterns derived from the longest reported notation "
                     f"({'every third program' if tier == 'quick' else 'every program'}); "
                     "all runs in-process through main() with patched argv",
            "evaluations": runs, "programs": len(results), "programs_left_out_by_wall_clock_budget": left_out, "checks": checks, "exhaustive": False, "failures": failures,
            "failure_classes": classes, "attributed_to_listed_findings": attributed,
            "cli_runs_that_crashed_(reported_under_C17)": crash_classes, "notes": notes,
            "dot_reader_self_check": {k: v for k, v in self_check.items() if k != "first"},
            "seconds": round(time.time() - t0, 1)},
        "violations": [], "known_lines": []}
    for i, cls in enumerate(sorted(first, key=lambda c: (-classes[c], c))[:5]):
        res["violations"].append({"file": f"outputs_C18_{i}.json", "data": first[cls]})
    return res


@standin("C18")
def annotation_rendering(tier: str = "quick", seed: int = 0, known: Any = None) -> Dict[str, Any]:
    """The block annotation of a context is `_repr_num_list(values)`.  Group indices lie in 0..15 and group sizes in 1..16, so the
    subsets of {0..16} are the *whole* input space of the function as the printers use it: every one is rendered and read back."""
    t0 = time.time()
    from tealer.printers.transaction_context import PrinterTransactionContext
    f = PrinterTransactionContext._repr_num_list          # pylint: disable=protected-access
    first: Optional[Dict[str, Any]] = None
    failures = 0
    n = 0
    for mask in range(1 << 17):
        vals = [k for k in range(17) if mask >> k & 1]
        n += 1
        why = None
        try:
            s = f(list(reversed(vals)) if mask % 3 == 0 else list(vals))
            toks = s.split()
            if _expand_ranges(s) != set(vals):
                why = f"denotes {sorted(_expand_ranges(s))}"
            else:
                firsts = [int(t.split("..")[0]) for t in toks]
                if firsts != sorted(firsts) or any(".." in t and int(t.split("..")[1]) - int(t.split("..")[0]) < 3 for t in toks):
                    why = "tokens out of order / a range shorter than 4 values"
                elif sum(len(range(int(t.split("..")[0]), int(t.split("..")[1]) + 1)) if ".." in t else 1 for t in toks) != len(vals):
                    why = "a value is shown twice"
        except Exception as e:      # pylint: disable=broad-except
            s, why = "", f"raised {type(e).__name__}: {e}"
        if why:
            failures += 1
            if first is None or len(vals) < len(first["values"]):
                first = {"property": "C18", "standin": "annotation_rendering (exhaustive over the printers' input space)", "class": "annotation-rendering-wrong",
                         "values": vals, "rendered": s, "detail": f"_repr_num_list({vals}) = {s!r}: {why}"}
    res: Dict[str, Any] = {
        "summary": {"function": "tealer.printers.transaction_context.PrinterTransactionContext._repr_num_list",
                    "contract": "the rendered text, read back (`a..b` = a, a+1, .., b), denotes exactly the set of values; tokens ascend, no value twice, "
                                "`a..b` only for runs of at least 4 values",
                    "bound": "all 131072 subsets of {0..16} (group indices are 0..15, group sizes 1..16: the whole input space of the annotations), "
                             "every third one passed in descending order", "evaluations": n, "exhaustive": True, "failures": failures,
                    "seconds": round(time.time() - t0, 1)},
        "violations": [], "known_lines": []}
    if first:
        res["violations"].append({"file": "outputs_C18_annotation_rendering.json", "data": first})
    return res


if __name__ == "__main__":
    _oracle_unit_checks()
    _tier = sys.argv[1] if len(sys.argv) > 1 else "quick"
    for _fn in (cli_completes, exports_faithful, annotation_rendering):
        _r = _fn(_tier, 0, None)
        print(f"==== {_fn.__name__} ({_tier})")
        print(json.dumps(_r["summary"], indent=1))
        for _v in _r["violations"]:
            _d = dict(_v["data"])
            print("----", _v["file"], _d.get("class"))
            print(json.dumps({k: (v if not isinstance(v, str) or len(v) < 700 else v[-700:]) for k, v in _d.items()}, indent=1))
