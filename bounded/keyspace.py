"""Exhaustive (complete, not bounded) check of the analysis-key functions over the finite key space (C10, §6.4 tier X):
the contracts of the three constructors, three recognisers and the inverter of key_helpers.py, evaluated natively on the
real functions for every base key x every index 0..15 / offset -15..15 \\ {0}, plus injectivity / disjointness."""
from __future__ import annotations

import time
from typing import Any, Dict

from bounded.registry import standin

BASE_KEYS = ["Fee", "RekeyTo", "CloseRemainderTo", "AssetCloseTo", "Sender", "TransactionType", "GroupSize", "GroupIndex"]


@standin("C10")
def keyspace(tier: str = "quick", seed: int = 0, known: Any = None) -> Dict[str, Any]:
    t0 = time.time()
    from tealer.analyses.dataflow.transaction_context.utils import key_helpers as kh
    from tealer.teal.instructions.parse_transaction_field import TX_FIELD_TXT_TO_OBJECT
    from spec.keys import BASE_FIELDS
    evals = 0
    bad = []
    seen: Dict[str, Any] = {}
    for base in BASE_KEYS:
        view = [(base, 0, 0, base)]
        for i in range(16):
            view.append((kh.get_gtxn_at_index_key(i, base), 1, i, base))
            view.append((kh.get_absolute_index_key(i, base), 2, i, base))
        for k in range(-15, 16):
            if k != 0:
                view.append((kh.get_relative_index_key(k, base), 3, k, base))
        for key, kind, idx, b in view:
            evals += 1
            if key in seen:
                bad.append(f"key {key!r} constructed twice: {seen[key]} and {(kind, idx, b)}")
            seen[key] = (kind, idx, b)
            rec = (1 if kh.is_gtxn_at_index_key(key) else 0, 2 if kh.is_absolute_index_key(key) else 0,
                   3 if kh.is_relative_index_key(key) else 0)
            got_kind = max(rec)
            if sum(1 for r in rec if r) > 1 or got_kind != kind:
                bad.append(f"recognisers disagree on {key!r}: {rec}, expected kind {kind}")
            if kind != 0:
                try:
                    inv = kh.get_ind_base_for_gtxn_type_keys(key)
                except Exception as e:
                    inv = f"raised {type(e).__name__}"
                if inv != (idx, b):
                    bad.append(f"inverter on {key!r}: {inv}, expected {(idx, b)}")
    for b, f in BASE_FIELDS.items():
        evals += 1
        c = TX_FIELD_TXT_TO_OBJECT.get(b)
        if c is None or c.__name__ != f:
            bad.append(f"TX_FIELD_TXT_TO_OBJECT[{b!r}] = {c}, expected class {f}")
        elif c.__subclasses__():
            bad.append(f"field class {f} has subclasses")
    res: Dict[str, Any] = {"summary": {"function": "key_helpers.{get_*_key,is_*_key,get_ind_base_for_gtxn_type_keys}",
                                       "contract": "abstract key view KEYKIND/KEYIDX/KEYBASE is a bijection (contracts/key_helpers.py)",
                                       "bound": "8 base keys x (1 + 16 + 16 + 30) keys", "evaluations": evals,
                                       "exhaustive": True, "failures": len(bad), "seconds": round(time.time() - t0, 3)},
                           "violations": []}
    for i, b in enumerate(bad[:5]):
        res["violations"].append({"file": f"keyspace_{i}.json", "data": {"property": "C10", "standin": "keyspace", "failure": b}})
    return res
