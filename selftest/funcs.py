"""Tiny functions for the engine self-test (vf/selftest.py): each exists in a right and a deliberately wrong variant."""
from typing import Dict, List


def sum_to(n: int) -> int:
    s = 0
    for i in range(8):
        if i < n:
            s += i
    return s


def count_pos(xs: List[int]) -> int:
    c = 0
    for x in xs:
        if x > 0:
            c += 1
    return c


def count_pos_wrong(xs: List[int]) -> int:
    c = 0
    for x in xs:
        if x >= 0:          # counts zeros as well
            c += 1
    return c


def fill(d: Dict[str, int], keys: List[str]) -> None:
    for k in keys:
        d[k] = 0


def fill_and_touch(d: Dict[str, int], keys: List[str], other: List[int]) -> None:
    for k in keys:
        d[k] = 0
        other.append(1)     # writes a component the loop hint does not cover


def fresh_lists(n: int) -> List[List[int]]:
    out: List[List[int]] = []
    for _ in range(4):
        out.append([n])
    return out


def guarded_div(a: int, b: int) -> int:
    if b == 0:
        raise ValueError("zero")
    return a // b


def calls_div(a: int, b: int) -> int:
    return guarded_div(a, b + 1)      # b + 1 may be zero: the caller does not exclude it


def calls_div_ok(a: int, b: int) -> int:
    if b < 0:
        return 0
    return guarded_div(a, b + 1)
