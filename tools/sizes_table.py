"""Regenerate the table of DESIGN.md §12.9 (functions under contract, obligations, stand-ins, quick wall time) from the evidence
files the checks wrote; the thorough column is kept from the table in place (thorough runs are not repeated by this tool)."""
import json, re
dp = "/verif/DESIGN.md"
s = open(dp).read()
i = s.index("### 12.9 Measured size of the checks")
j = s.index("Obligations are counted per property", i)
old = dict(re.findall(r"^\| (C\d\d) \|.*\| ([\d.]+) \|$", s[i:j], re.M))
rows = []
for k in range(1, 21):
    pid = f"C{k:02d}"
    e = json.load(open(f"/verif/evidence/{pid}.json"))
    c = e["coverage"]
    rows.append(f"| {pid} | {len(c.get('functions_under_contract', []))} | {c.get('obligations', 0)}"
                f"{'' if c.get('obligations', 0) == c.get('discharged', 0) else ' (' + str(c.get('discharged', 0)) + ' discharged)'} | "
                f"{len(c.get('bounded_standins', []))} | {e.get('wall_s', 0):.1f} | {old.get(pid, '-')} |")
table = ("### 12.9 Measured size of the checks (unchanged tree, 16 cores; both tiers exit 0 for all 20 properties)\n\n"
         "| property | functions under contract | obligations (all discharged) | stand-ins | quick wall (s) | thorough wall (s, second session) |\n|---|---|---|---|---|---|\n"
         + "\n".join(rows) + "\n\n")
s = s[:i] + table + s[j:]
open(dp, "w").write(s)
print("\n".join(rows))
