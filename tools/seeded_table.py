"""Write seeded/<id>/meta.json (property, site, what the change needs to manifest, what was run, outcome) from the files the
confirmation and matrix tools leave there, and regenerate the table of DESIGN.md §12.8 between its two markers."""
import json, os, re, sys
ROOT = "/verif/seeded"
rows = []
for d in sorted(os.listdir(ROOT), key=lambda x: (x.split("-")[0], int(x.split("-")[1]))):
    p = os.path.join(ROOT, d)
    if not os.path.isdir(p):
        continue
    prop = d.split("-")[0]
    patch = open(os.path.join(p, "patch.diff")).read()
    files = re.findall(r"^\+\+\+ b/(\S+)", patch, re.M)
    hunks = re.findall(r"^@@.*@@\s*(.*)$", patch, re.M)
    notes = open(os.path.join(p, "notes.md")).read() if os.path.exists(os.path.join(p, "notes.md")) else ""
    paras = [x.strip() for x in re.split(r"\n\s*\n", notes) if x.strip()]
    need = next((x for x in paras if re.search(r"trigger|manifest|needed|needs", x, re.I)), paras[1] if len(paras) > 1 else (paras[0] if paras else ""))
    need = re.sub(r"\s+", " ", re.sub(r"[*`#]", "", need))[:600]
    conf = json.load(open(os.path.join(p, "confirm.json"))) if os.path.exists(os.path.join(p, "confirm.json")) else {}
    det = json.load(open(os.path.join(p, "detect.json"))) if os.path.exists(os.path.join(p, "detect.json")) else {}
    meta = {"id": d, "property": prop, "files": files, "site": hunks[:2], "needs_to_manifest": need,
            "confirmed": conf, "ran": [f"tools/confirm_seeded.sh seeded/{d}", det.get("command", f"tools/seedrun.sh seeded/{d} {prop}")],
            "detected_by_own_property_check": det.get("detected"), "violation_lines": det.get("violation_lines", [])}
    json.dump(meta, open(os.path.join(p, "meta.json"), "w"), indent=1)
    lines = det.get("violation_lines", [])
    kinds = []
    for l in lines:
        m = re.search(r"replay=\S*/([^/\s]+)\.json( no-failing-input-found)?", l)
        if m:
            name = m.group(1)
            if name.startswith(("bsprog", "cfgcheck", "outputs", "enginecheck", "metamorphic", "group_verdicts", "regex", "lines_", "mode_", "verify_version",
                                "stackcheck", "stack_", "tables", "relational", "history", "tokeniser", "files_")):
                kinds.append("stand-in " + re.sub(r"_\d+.*", "", name))
            elif name.startswith(("regressed_", "d_tealer", "_tealer")) or m.group(2) or len(l) >= 299:
                kinds.append("obligation " + re.sub(r".*__", "", name)[:50] + (" (no input)" if m.group(2) else ""))
            else:
                kinds.append("obligation " + re.sub(r".*__", "", name)[:50] + " (replayed)")
    seen = []
    for k in kinds:
        if k not in seen:
            seen.append(k)
    ok = conf.get("applies") and conf.get("demo_exit_without_patch") == 0 and conf.get("demo_exit_with_patch") not in (0, None) and "284 passed" in conf.get("suite_with_patch", "")
    rows.append(f"| {d} | `{files[0].replace('tealer/', '') if files else '?'}` {('· ' + hunks[0][:40]) if hunks else ''} | {'yes' if ok else 'NO'} | "
                f"{'yes' if det.get('detected') else ('NO' if det else 'not run')} | {'; '.join(seen[:3]) or '-'} |")
table = "| id | site | confirmed | caught by `./vcheck <property>` | through |\n|---|---|---|---|---|\n" + "\n".join(rows)
dp = "/verif/DESIGN.md"
s = open(dp).read()
B, E = "<!-- seeded-table:begin -->", "<!-- seeded-table:end -->"
if "SEEDED_TABLE_PLACEHOLDER" in s:
    s = s.replace("SEEDED_TABLE_PLACEHOLDER", f"{B}\n{table}\n{E}")
else:
    s = s[:s.index(B)] + f"{B}\n{table}\n" + s[s.index(E):]
open(dp, "w").write(s)
print(len(rows), "rows;", sum(1 for r in rows if "| NO |" in r), "with a NO")
