"""Developer tool: inspect refuted obligations.  usage: dbg.py <func-substr> <obligation-substr> [pc-substr]"""
import sys; sys.path.insert(0,'/verif')
import z3
import contracts; contracts.load_all()
from pyvc.dsl import REGISTRY
from pyvc.verify import verify_function
from pyvc.replay import ModelView
from pyvc.loader import lookup
cands=[k for k in REGISTRY if k.endswith(sys.argv[1])] or [k for k in REGISTRY if sys.argv[1] in k]; t=cands[0]
c=REGISTRY[t]
r=verify_function(c)
print(r.status, r.reason[:2000], r.counts())
for o in r.obligations:
    if o.result.status!='unsat' and not o.must_fail: print("  ", o.name.split('::')[1], o.result.status)
if len(sys.argv)>2:
  for o in r.obligations:
    if o.result.status=='sat' and not o.must_fail and sys.argv[2] in o.name:
        print(o.name, o.st.decisions)
        m=o.result.model
        mv=ModelView(m)
        bad=[f for f in o.pc if not z3.is_true(m.eval(f,model_completion=True))]
        print("pc false in model:",len(bad), "of", len(o.pc))
        for f in bad[:5]: print("   ",str(f)[:600], '=>', m.eval(f,model_completion=True))
        print("goal evaluates to", m.eval(o.goal,model_completion=True))
        if len(sys.argv)>3:
            for f in o.pc:
                if sys.argv[3] in str(f): print("PC:", str(f)[:1500])
        if c.reify:
            fi=lookup(t)
            for cand in c.reify(mv,o):
                print(cand['repr'])
                a=cand['args']
                try: print("real result:", fi.pyfunc(*[a[x] for x in fi.argnames]))
                except Exception as e: print("real raised", repr(e))
                break
        break
