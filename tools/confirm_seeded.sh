#!/bin/bash
# usage: tools/confirm_seeded.sh <seeded-dir>   -- confirm a seeded change in a scratch worktree (outside /repo and /verif):
# the patch applies to /repo's HEAD, the demo passes without it and fails with it, the pinned test-suite passes with it.
d="$(cd "$1" && pwd)"
wt="$(mktemp -d /tmp/confwt.XXXXXX)"; rmdir "$wt"
git -C /repo worktree add -q "$wt" HEAD || exit 9
trap 'git -C /repo worktree remove --force "$wt" >/dev/null 2>&1; git -C /repo worktree prune' EXIT
cd "$wt"
base=$(git rev-parse --short HEAD)
PYTHONPATH="$wt" /venv/bin/python "$d/demo.py" >/dev/null 2>&1; demo_without=$?
if ! git apply "$d/patch.diff" 2>/dev/null; then
  echo "{\"base\": \"$base\", \"applies\": false}" > "$d/confirm.json"; echo "$d: patch does not apply"; exit 1
fi
PYTHONPATH="$wt" /venv/bin/python "$d/demo.py" >/dev/null 2>&1; demo_with=$?
summary=$(PYTHONPATH="$wt" /venv/bin/python -m pytest -q -p no:cacheprovider --timeout=1800 2>&1 | tail -1)
echo "{\"base\": \"$base\", \"applies\": true, \"demo_exit_without_patch\": $demo_without, \"demo_exit_with_patch\": $demo_with, \"suite_with_patch\": \"$summary\"}" > "$d/confirm.json"
echo "$d: without=$demo_without with=$demo_with suite: $summary"
