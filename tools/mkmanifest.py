"""Regenerate /verif/MANIFEST.json from the table below (kept valid against /root/.vp/MANIFEST.schema.json)."""
import json, sys
sys.path.insert(0, "/verif")
BASE_NOTE = ("Trusted base: pyvc (self-built VC generator; guarded by canary clauses, precondition witnesses, native replay of "
             "counter-models), z3 5.1 / cvc5 1.0.3 / z3 4.8.12, the Python-semantics table of DESIGN.md §2.2, the specification "
             "files spec/*.py (AVM axioms, opcode table, gamma, key view), contracts marked trusted/interface in the evidence, "
             "partial correctness only. Whole-run statements are assembled from per-call contracts by the lemma layer of DESIGN.md "
             "§7 (meta-induction and the paper lemmas are assumptions). Bounded stand-ins are listed separately in the evidence "
             "and never counted as discharged. Cases of listed findings (known_findings.json) are carved out clause by clause.")
P = "proof"
O = "other"
CHECKS = {
 "C01": (P, "Proved on the real code (tag C01): the comparison kernels of all four domains are sound in gamma for every comparison tree, operand order and constant; "
            "DataflowTransactionContext._get_asserted is sound through !, &&, || (loop invariants, recursion) against the abstract-domain interface; "
            "is_value_matches_key / is_int_push_ins attribute reads to the right transaction; the engine's equations (block / path level constraints, reach-in, live-in, the two merge "
            "steps with frame and changed-flag, gtxn update) are pinned exactly in gamma; validated_in_block is exact against an uninterpreted checks_field and the nine checks_field "
            "closures are exactly the danger predicates of the property text. Not proved: that the worklists reach a fixpoint of these equations and that the fixpoint is sound for "
            "every run (meta-induction), DFS completeness of search_paths: decided on bounded inputs by the run-time engine contracts (fixpoint at every block) and BS-PROG "
            "(real pipeline vs the independent interpreter spec/avm.py).",
            "contract-based deductive verification (pyvc) + bounded run-time engine contracts + BS-PROG for the end-to-end clause"),
 "C02": (O, 'search_paths (a recursive closure over lists of lists) is not under contract. The exclusion clause -- a reported path contains no block at which the dangerous value has been excluded -- rests on the exactness contracts shared with C03, which this check verifies too (comparison kernels exact in both operand orders incl. the mirrored operator, and_exact / or_exact of _get_asserted, validated_in_block exact, the nine checks_field closures exact). The path-shape clauses are decided by the bounded stand-in: every reported path of every detector on the generated programs is re-validated against the AVM control rules computed from the independent parser (entry start, legal transfers, matched call/return, terminating last block, no revisit inside an activation, no duplicates).',
            'bounded native contract check (BS-PROG) for the path shape + the deductive exactness contracts of C03 (pyvc) for the exclusion clause'),
 "C03": (P, "Proved on the real code: exactness clauses of the comparison kernels (fee: exact implied bound for six operators in both operand orders; group size/index: exact true/false sets; "
            "transaction kinds: a direct check by name or number in either order removes the kind it excludes; addresses: compared branch is never 'any address'); exact lattice operations; "
            "the engine equations are exact in gamma (reach-in, live-in, merge, gtxn update), a block with err / return 0 keeps only the null set, an exit other than bz/bnz leaves "
            "every edge unconstrained; the checks_field thresholds are exact. Least-fixpoint / merge-over-paths (L-MOP) is not machine-checked; the edge values of bz/bnz are compared "
            "with a reference by the run-time engine contracts (bounded).", "contract-based deductive verification (pyvc) + bounded run-time engine contracts"),
 "C04": (O, "Bounded/exhaustive stand-in only: all control skeletons of <= 5 items (every label assignment) and 3000 generated programs: mirror, closure, partition, single entry/exit, "
            "bz/bnz successor order, idx, and the walk property against spec/avm.py runs. The four passes are not under contract (heap-mutating loops).",
            "exhaustive small-scope native check against an independent CFG oracle"),
 "C05": (O, "The observation functions the analyses use are under contract (next/prev_blocks_global, leaf_block_global, is_callsub/is_retsub_block, is_sub_return_point, callsub_block: "
            "verified structural clauses); the construction of the tables (parser passes, Subroutine, Function) is not: bounded stand-in recomputing subroutine tables, call sites, return points "
            "and the call-graph export independently on call-structure programs.",
            "bounded native check against an independent oracle"),
 "C06": (P, "Proved: _get_asserted_int_values (bag semantics, frame: the universal list is not modified), _get_asserted_groupsizes / _groupindices sound and exact in both operand orders "
            "(finding D1 carved out), _get_asserted generic, the engine equations (see C01) incl. checks_group_size, GroupIndices._store_results (indices clamped below the largest size, contexts list "
            "exactly the computed sets). Per-block statement over whole runs: run-time engine contracts "
            "(fixpoint) and BS-PROG (bounded).", "contract-based deductive verification (pyvc) + run-time engine contracts + BS-PROG"),
 "C07": (P, "Proved: _get_asserted_transaction_types admits every approvable pay/axfer/update/delete kind outside finding D5, precision on direct checks, the two enum maps total and exact. "
            "The engine equations are pinned in gamma (see C01); TxnType._store_results: every context's transaction_types lists exactly the computed kinds. Per-block statement over whole runs: "
            "run-time engine contracts and BS-PROG (bounded).", "contract-based deductive verification (pyvc) + run-time engine contracts + BS-PROG"),
 "C08": (P, "Proved: AddrFields._union/_intersection exact in gamma and marker-invariant preserving (and not mutating their arguments), _get_asserted_address, _get_asserted_txn_gtxn sound for "
            "constant comparands in both orders (finding D19 carved out); engine equations (see C01); AddrFields._set_addr_values (flags and list shown for a computed set). Per-block statement over whole runs: run-time engine contracts and BS-PROG (bounded).",
            "contract-based deductive verification (pyvc) + run-time engine contracts + BS-PROG"),
 "C09": (P, "Proved: FeeField lattice exact; _get_asserted_max_value sound and tight; _get_asserted_fee sound and exact in both operand orders incl. the mirrored operator (fix 2b2fb7f); "
            "finding D18 carved out; the fee closure's threshold (272000), the engine equations (see C01) and FeeField._store_results (what the detectors read is what was computed: owner-view "
            "separation of the context objects). Per-block statement over whole runs: run-time engine contracts and BS-PROG (bounded).",
            "contract-based deductive verification (pyvc) + run-time engine contracts + BS-PROG"),
 "C10": (P, "Proved: is_value_matches_key with get_index_and_field and _get_index inlined, exact against an independent syntactic definition of 'read of the key's field' and sound against "
            "the AVM axioms; key constructors/recognisers/inverter decided exhaustively over the finite key space (complete); _update_gtxn_constraints (cell of gtxn i k = old cell n cell of k "
            "if i is a possible own index, else null; frame), gtxn_context, engine equations (see C01). Per-block statement over whole runs: run-time engine contracts and BS-PROG (bounded).",
            "contract-based deductive verification (pyvc) + exhaustive key space + run-time engine contracts + BS-PROG"),
 "C11": (P, "Proved for ALL immediates: stack_pop_size / stack_push_size of every instruction class that defines them equal the AVM table (finding D14 carved out); inherited defaults compared "
            "exhaustively; the `replace` pseudo-op (2 operands with an immediate, 0 included; 3 without); _flatten_ast and compute_equations proved (recursion, loop invariant). "
            "Stack.pop_n_values / construct_stack_ast are not under contract: bounded stackcheck.",
            "contract-based deductive verification (pyvc): table obligations"),
 "C12": (O, 'Bounded stand-in only: construct_function on generated programs x dispatch prefixes (isomorphism for [B0], error blocks, contract graph unchanged, runs, contexts independent of the build order, and function objects unchanged by the construction of later functions from the same contract).',
            'bounded native check'),
 "C13": (O, "contract_checks_its_field / _txn_at_absolute_index / _using_relative_index are proved exact over the leaf blocks of the global graph (absolute_context, relative_context, "
            "gtxn_context under contract); validated_in_block is proved exact (own view, view at the given absolute index, or the view at every possible own index) against an uninterpreted checks_field; the group "
            "drivers are not under contract: generated group configurations vs brute-force group semantics with spec/avm.py (bounded).",
            "bounded native check against brute-force group semantics (+ one function under deductive contract)"),
 "C14": (P, "Proved: frame obligations of every function under contract (no write to objects existing at entry beyond `modifies`; syntactic in-place mutation of parameters is an obligation), "
            "e.g. the universal-set lists and the arguments of the lattice operations; the merge steps change only the cells of `block` and return a flag that is true iff some cell changed "
            "(what makes the worklist result independent of the order). History / order / hash-seed runs and the fixpoint at every block: bounded stand-ins.",
            "frame obligations (pyvc) + bounded relational runs + run-time engine contracts"),
 "C15": (P, "Proved congruences: is_int_push_ins reports the immediate as written and its AVM value (names denote assembler values), the enum maps map names and numbers alike, a direct kind "
            "check by name or number in either order gives the same exclusion. End-to-end invariance under the listed rewrites: bounded metamorphic stand-in.", "congruence clauses (pyvc) + metamorphic stand-in"),
 "C16": (O, "Proved for every argument text (z3/cvc5 strings): the ordered prefix rules of parse_line never take an opcode for another one -- a mechanical slice of the rule loop of parse_line (rebuilt from the AST on every run; the constructor call and the attribute stores dropped) is executed over the real 174-entry parser_rules table, one contract per AVM opcode: the rule that fires is a rule of the line's own opcode, it is handed exactly the text after the opcode, and an opcode that has a rule is never left to the unsupported fallback. Not proved: the tokeniser, the immediate decoders, the instruction constructors and the printers -- bounded/exhaustive stand-in: every parser rule with all immediate spellings and decorations, independent byte-literal decoding, print-back round trip, unknown opcodes, line numbers, exhaustive tokeniser strings <= 6.",
            'dispatch-table obligations on a mechanical slice (pyvc, cvc5 strings) + exhaustive-over-rules native check against independent lexer/decoders'),
 "C17": (O, 'Safety obligations (index, key, attribute, assert, raise) of the functions under contract are proved (tag C17); the CLI as a whole is decided by the bounded stand-in running every subcommand on generated and adversarial layouts (incl. shared callees with a callsub as the last instruction).',
            'safety obligations (pyvc) + bounded CLI runs'),
 "C18": (O, 'Proved: ExecutionPaths.filter_paths leaves exactly the paths whose short notation the pattern does not match (re.search as an uninterpreted relation, the short notation a named function), the empty pattern is no filter, no other result object is written. Exhaustive: _repr_num_list over every subset of {0..16} (the whole input space of the block annotations) read back. Everything else bounded: DOT files read back and compared with the internal graph; JSON count/success/short notation; --filter-paths end to end.',
            'one function under deductive contract (pyvc) + exhaustive annotation rendering + bounded read-back check'),
 "C19": (P, "Proved: _verify_version flags exactly the instructions/fields introduced after the declared version (every field kind) and mixed modes (loop invariant); cost of every class that defines "
            "it equals the AVM table for versions 1-8 and both curves. version/mode/defaults: exhaustive over classes, cross-read against pyteal; program-level mode classification "
            "(mode-only opcode anywhere in the text, reachable or not, and the application / logic-signature routing): every mode-specific mnemonic x 5 placements (bounded).",
            "contract-based deductive verification (pyvc) + exhaustive table check + bounded mode classification"),
 "C20": (O, 'Proved: _is_match is exact against the chain of unique successors of the start instruction (the pattern occurs consecutively in straight-line code, same class and printed text; loop invariant over a ghost chain), _is_equal is exactly class + printed text, _find_label returns the label instruction of that name / the first instruction for `*`. Not proved: the DFS of _find_instructions / match_regex (reachability, the covered set): bounded stand-in, match_regex vs an independent reachability computation on generated and hand-written graphs (finding D10 for the covered set).',
            'three functions under deductive contract (pyvc) + bounded native check of the traversal'),
}
props = [json.loads(l) for l in open("/verif/properties.jsonl")]
m = json.load(open("/verif/MANIFEST.json"))
m["checks"] = []
for p in props:
    pid = p["id"]
    cat, text, tech = CHECKS[pid]
    m["checks"].append({"property_id": pid, "quick_cmd": f"./vcheck {pid} --tier quick", "thorough_cmd": f"./vcheck {pid} --tier thorough",
                        "evidence_file": f"evidence/{pid}.json", "replay_cmd_template": "./vcheck replay {path}", "engine": "pyvc",
                        "level_claimed": {"category": cat, "text": text, "design_ref": f"DESIGN.md §8 {pid}, §12"}, "level_note": BASE_NOTE, "technique": tech})
m["not_applicable"] = []
m["engines"] = [{"name": "pyvc", "path": "pyvc/", "serves_properties": [p["id"] for p in props],
                 "kind_free_text": "self-built deductive verifier: real function bodies read from /repo on every run, path-wise VCs against sidecar contracts, z3/cvc5; bounded stand-ins in bounded/"}]
m["notes"] = "Every check is `./vcheck <id>`; evidence lists obligations/discharged (solver only), undecided, bounded stand-ins (never counted as proved), assumed contracts and listed findings."
json.dump(m, open("/verif/MANIFEST.json", "w"), indent=1)
import jsonschema
jsonschema.validate(m, json.load(open("/root/.vp/MANIFEST.schema.json")))
print("ok", len(m["checks"]))
