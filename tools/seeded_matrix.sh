#!/bin/bash
# usage: tools/seeded_matrix.sh [<seeded-dir> ...]   (default: all)
# Runs the quick check of each seeded change's own property against the change (scratch worktree, VERIF_REPO) and records the
# outcome in <seeded-dir>/detect.json.  /repo and /verif/evidence are not touched.
cd /verif
dirs=("$@"); [ ${#dirs[@]} -eq 0 ] && dirs=(seeded/C*-*)
one() {
  d="$1"; id="$(basename "$d")"; p="${id%%-*}"
  out="$(LINES_MAX=12 tools/seedrun.sh "$d" "$p" 2>&1)"
  ex="$(echo "$out" | grep -o "exit($p)=[0-9]*" | tail -1 | cut -d= -f2)"
  python3 - "$d" "$p" "$ex" <<PY
import json,sys,re
d,p,ex=sys.argv[1:4]
out='''$(echo "$out" | sed "s/'''/\"\"\"/g")'''
viol=[re.sub(r'/tmp/seedwt\.[A-Za-z0-9]+/_replays/','replays/',l)[:300] for l in out.split('\n') if l.startswith('VIOLATION')]
json.dump({"property":p,"command":f"tools/seedrun.sh {d} {p}  (./vcheck {p} --tier quick with VERIF_REPO=<scratch worktree with the patch>)",
           "exit":int(ex) if ex.isdigit() else None,"detected":ex=="1","violation_lines":viol[:8]},open(f"{d}/detect.json","w"),indent=1)
print(d,p,"exit",ex,len(viol))
PY
}
export -f one
printf "%s\n" "${dirs[@]}" | xargs -P 3 -I{} bash -c 'one {}'
