#!/bin/bash
# usage: tools/seedrun.sh <seeded-dir> <prop> [<prop> ...]
# Applies the seeded patch to a scratch worktree of /repo (outside /repo and /verif), runs the checks against it via
# VERIF_REPO, and removes the worktree.  /repo itself is not touched.
d="$(cd "$1" && pwd)"; shift
wt="$(mktemp -d /tmp/seedwt.XXXXXX)"; rmdir "$wt"
git -C /repo worktree add -q "$wt" HEAD || exit 9
trap 'git -C /repo worktree remove --force "$wt" >/dev/null 2>&1; git -C /repo worktree prune' EXIT
git -C "$wt" apply "$d/patch.diff" || { echo "patch does not apply"; exit 9; }
for p in "$@"; do
  VERIF_REPO="$wt" VERIF_EVIDENCE_DIR="$wt/_evidence" VERIF_REPLAY_DIR="${SEED_REPLAYS:-$wt/_replays}" /verif/vcheck "$p" --tier "${TIER:-quick}" 2>&1 | grep -E "^\[|VIOLATION|MACHINERY|KNOWN|UNDECIDED" | cut -c1-230 | head -${LINES_MAX:-6}
  echo "exit($p)=${PIPESTATUS[0]}"
done
