#!/bin/bash
# usage: tools/seedrun.sh <seeded-dir> <prop> [<prop> ...] : apply the seeded patch to /repo, run the checks, undo it.
d="$(cd "$1" && pwd)"; shift
if [ -n "$(git -C /repo status --porcelain --untracked-files=no)" ]; then echo "/repo has uncommitted changes" >&2; exit 9; fi
git -C /repo apply "$d/patch.diff" || exit 9
trap 'git -C /repo checkout -- .' EXIT
for p in "$@"; do
  /verif/vcheck "$p" --tier "${TIER:-quick}" 2>&1 | grep -E "^\[|VIOLATION|MACHINERY|UNDECIDED" | cut -c1-260 | head -8
  echo "exit($p)=${PIPESTATUS[0]}"
done
