"""The AVM opcode table, TEAL v1-v8 (DESIGN.md §5.2, Appendix E): stack effect, introduction version, mode, cost.

Written from the AVM specification (TEAL langspec v8), *not* from tealer.  Each row:
    mnemonic: (pops, pushes, version, mode, cost)
pops / pushes: int, or an expression string over the immediates: `n` = first integer immediate, `len` = number of
entries of the list immediate (labels / constants).  mode: "any" | "sig" (logic-sig only) | "app" (application only).
cost: int, or {"v1": c1, "v2+": c2}, or {"curve": {name: cost}}.  Dynamic cost parts (per-byte surcharges of
base64_decode / json_ref) are not modelled: the static part is listed.
"""

OPS = {
    # ---- v1 ----
    "err": (0, 0, 1, "any", 1),
    "sha256": (1, 1, 1, "any", {"v1": 7, "v2+": 35}),
    "keccak256": (1, 1, 1, "any", {"v1": 26, "v2+": 130}),
    "sha512_256": (1, 1, 1, "any", {"v1": 9, "v2+": 45}),
    "ed25519verify": (3, 1, 1, "any", 1900),
    "+": (2, 1, 1, "any", 1), "-": (2, 1, 1, "any", 1), "/": (2, 1, 1, "any", 1), "*": (2, 1, 1, "any", 1),
    "<": (2, 1, 1, "any", 1), ">": (2, 1, 1, "any", 1), "<=": (2, 1, 1, "any", 1), ">=": (2, 1, 1, "any", 1),
    "&&": (2, 1, 1, "any", 1), "||": (2, 1, 1, "any", 1), "==": (2, 1, 1, "any", 1), "!=": (2, 1, 1, "any", 1),
    "!": (1, 1, 1, "any", 1), "len": (1, 1, 1, "any", 1), "itob": (1, 1, 1, "any", 1), "btoi": (1, 1, 1, "any", 1),
    "%": (2, 1, 1, "any", 1), "|": (2, 1, 1, "any", 1), "&": (2, 1, 1, "any", 1), "^": (2, 1, 1, "any", 1),
    "~": (1, 1, 1, "any", 1),
    "mulw": (2, 2, 1, "any", 1),
    "intcblock": (0, 0, 1, "any", 1), "intc": (0, 1, 1, "any", 1),
    "intc_0": (0, 1, 1, "any", 1), "intc_1": (0, 1, 1, "any", 1), "intc_2": (0, 1, 1, "any", 1), "intc_3": (0, 1, 1, "any", 1),
    "bytecblock": (0, 0, 1, "any", 1), "bytec": (0, 1, 1, "any", 1),
    "bytec_0": (0, 1, 1, "any", 1), "bytec_1": (0, 1, 1, "any", 1), "bytec_2": (0, 1, 1, "any", 1), "bytec_3": (0, 1, 1, "any", 1),
    "arg": (0, 1, 1, "sig", 1),
    "arg_0": (0, 1, 1, "sig", 1), "arg_1": (0, 1, 1, "sig", 1), "arg_2": (0, 1, 1, "sig", 1), "arg_3": (0, 1, 1, "sig", 1),
    "txn": (0, 1, 1, "any", 1), "gtxn": (0, 1, 1, "any", 1), "global": (0, 1, 1, "any", 1),
    "load": (0, 1, 1, "any", 1), "store": (1, 0, 1, "any", 1),
    "bnz": (1, 0, 1, "any", 1), "pop": (1, 0, 1, "any", 1), "dup": (1, 2, 1, "any", 1),
    # pseudo-ops of the assembler
    "int": (0, 1, 1, "any", 1), "byte": (0, 1, 1, "any", 1), "addr": (0, 1, 1, "any", 1),
    # ---- v2 ----
    "addw": (2, 2, 2, "any", 1),
    "txna": (0, 1, 2, "any", 1), "gtxna": (0, 1, 2, "any", 1),
    "bz": (1, 0, 2, "any", 1), "b": (0, 0, 2, "any", 1), "return": (1, 0, 2, "any", 1),
    "dup2": (2, 4, 2, "any", 1), "concat": (2, 1, 2, "any", 1),
    "substring": (1, 1, 2, "any", 1), "substring3": (3, 1, 2, "any", 1),
    "balance": (1, 1, 2, "app", 1), "app_opted_in": (2, 1, 2, "app", 1),
    "app_local_get": (2, 1, 2, "app", 1), "app_local_get_ex": (3, 2, 2, "app", 1),
    "app_global_get": (1, 1, 2, "app", 1), "app_global_get_ex": (2, 2, 2, "app", 1),
    "app_local_put": (3, 0, 2, "app", 1), "app_global_put": (2, 0, 2, "app", 1),
    "app_local_del": (2, 0, 2, "app", 1), "app_global_del": (1, 0, 2, "app", 1),
    "asset_holding_get": (2, 2, 2, "app", 1), "asset_params_get": (1, 2, 2, "app", 1),
    # ---- v3 ----
    "gtxns": (1, 1, 3, "any", 1), "gtxnsa": (1, 1, 3, "any", 1),
    "pushint": (0, 1, 3, "any", 1), "pushbytes": (0, 1, 3, "any", 1),
    "assert": (1, 0, 3, "any", 1),
    "dig": ("n+1", "n+2", 3, "any", 1), "swap": (2, 2, 3, "any", 1), "select": (3, 1, 3, "any", 1),
    "getbit": (2, 1, 3, "any", 1), "setbit": (3, 1, 3, "any", 1), "getbyte": (2, 1, 3, "any", 1), "setbyte": (3, 1, 3, "any", 1),
    "min_balance": (1, 1, 3, "app", 1),
    # ---- v4 ----
    "gload": (0, 1, 4, "app", 1), "gloads": (1, 1, 4, "app", 1), "gaid": (0, 1, 4, "app", 1), "gaids": (1, 1, 4, "app", 1),
    "callsub": (0, 0, 4, "any", 1), "retsub": (0, 0, 4, "any", 1),
    "shl": (2, 1, 4, "any", 1), "shr": (2, 1, 4, "any", 1), "sqrt": (1, 1, 4, "any", 4), "bitlen": (1, 1, 4, "any", 1),
    "exp": (2, 1, 4, "any", 1), "expw": (2, 2, 4, "any", 10), "divmodw": (4, 4, 4, "any", 20),
    "b+": (2, 1, 4, "any", 10), "b-": (2, 1, 4, "any", 10), "b/": (2, 1, 4, "any", 20), "b*": (2, 1, 4, "any", 20),
    "b%": (2, 1, 4, "any", 20), "b|": (2, 1, 4, "any", 6), "b&": (2, 1, 4, "any", 6), "b^": (2, 1, 4, "any", 6),
    "b~": (1, 1, 4, "any", 4),
    "b<": (2, 1, 4, "any", 1), "b>": (2, 1, 4, "any", 1), "b<=": (2, 1, 4, "any", 1), "b>=": (2, 1, 4, "any", 1),
    "b==": (2, 1, 4, "any", 1), "b!=": (2, 1, 4, "any", 1),
    "bzero": (1, 1, 4, "any", 1),
    # ---- v5 ----
    "ecdsa_verify": (5, 1, 5, "any", {"curve": {"Secp256k1": 1700, "Secp256r1": 2500}}),
    "ecdsa_pk_decompress": (1, 2, 5, "any", {"curve": {"Secp256k1": 650, "Secp256r1": 2400}}),
    "ecdsa_pk_recover": (4, 2, 5, "any", 2000),
    "cover": ("n+1", "n+1", 5, "any", 1), "uncover": ("n+1", "n+1", 5, "any", 1),
    "loads": (1, 1, 5, "any", 1), "stores": (2, 0, 5, "any", 1),
    "extract": (1, 1, 5, "any", 1), "extract3": (3, 1, 5, "any", 1),
    "extract_uint16": (2, 1, 5, "any", 1), "extract_uint32": (2, 1, 5, "any", 1), "extract_uint64": (2, 1, 5, "any", 1),
    "txnas": (1, 1, 5, "any", 1), "gtxnas": (1, 1, 5, "any", 1), "gtxnsas": (2, 1, 5, "any", 1),
    "args": (1, 1, 5, "sig", 1),
    "app_params_get": (1, 2, 5, "app", 1), "log": (1, 0, 5, "app", 1),
    "itxn_begin": (0, 0, 5, "app", 1), "itxn_submit": (0, 0, 5, "app", 1), "itxn_field": (1, 0, 5, "app", 1),
    "itxn": (0, 1, 5, "app", 1), "itxna": (0, 1, 5, "app", 1),
    # ---- v6 ----
    "bsqrt": (1, 1, 6, "any", 40), "divw": (3, 1, 6, "any", 1),
    "itxn_next": (0, 0, 6, "app", 1), "gitxn": (0, 1, 6, "app", 1), "gitxna": (0, 1, 6, "app", 1),
    "itxnas": (1, 1, 6, "app", 1), "gitxnas": (1, 1, 6, "app", 1), "gloadss": (2, 1, 6, "app", 1),
    "acct_params_get": (1, 2, 6, "app", 1),
    # ---- v7 ----
    "replace2": (2, 1, 7, "any", 1), "replace3": (3, 1, 7, "any", 1),
    "base64_decode": (1, 1, 7, "any", 1), "json_ref": (2, 1, 7, "any", 25),
    "ed25519verify_bare": (3, 1, 7, "any", 1900), "sha3_256": (1, 1, 7, "any", 130),
    "vrf_verify": (3, 2, 7, "any", 5700), "block": (1, 1, 7, "any", 1),
    # ---- v8 ----
    "pushints": (0, "len", 8, "any", 1), "pushbytess": (0, "len", 8, "any", 1),
    "bury": ("n+1", "n", 8, "any", 1), "popn": ("n", 0, 8, "any", 1), "dupn": (1, "n+1", 8, "any", 1),
    "proto": (0, 0, 8, "any", 1), "frame_dig": (0, 1, 8, "any", 1), "frame_bury": (1, 0, 8, "any", 1),
    "switch": (1, 0, 8, "any", 1), "match": ("len+1", 0, 8, "any", 1),
    "box_create": (2, 1, 8, "app", 1), "box_extract": (3, 1, 8, "app", 1), "box_replace": (3, 0, 8, "app", 1),
    "box_del": (1, 1, 8, "app", 1), "box_len": (1, 2, 8, "app", 1), "box_get": (1, 2, 8, "app", 1), "box_put": (2, 0, 8, "app", 1),
}

# rows on which this table and the pyteal 0.27 table (an independent implementation installed in the repository's venv) were
# compared: version and mode agree on every shared mnemonic (checked by bounded/tablecheck.py at run time).
NOTES = {
    "replace": "assembler pseudo-op: replace2 if an immediate is given, else replace3",
    "method": "assembler pseudo-op (pushbytes of the 4-byte selector): no row; tealer says version 6",
}


def static_cost(mn: str, version: int, curve: str = "Secp256k1") -> int:
    c = OPS[mn][4]
    if isinstance(c, int):
        return c
    if "v1" in c:
        return c["v1"] if version == 1 else c["v2+"]
    return c["curve"][curve]


def effect(mn: str, n: int = 0, length: int = 0):
    def ev(x):
        if isinstance(x, int):
            return x
        return eval(x, {"n": n, "len": length})
    return ev(OPS[mn][0]), ev(OPS[mn][1])
