"""Reference semantics of the modelled TEAL fragment (DESIGN.md section 5.1).

This file is an ORACLE.  It is written from the AVM specification (langspec v8,
go-algorand `data/transactions/logic`), it does not import tealer and it does
not imitate tealer's parser or CFG construction.  Pure standard library.

Model
-----
* State: (pc, stack, scratch[256], callstack).
* Values: uint64 as Python ``int``; byte strings as either
    - ``str``   for account addresses (``addr X``, ``txn Sender`` ...), or
    - ``bytes`` for every other byte string (``byte ...`` literals, ``txn Note``).
  Both are of AVM type "bytes".  ``==``/``!=`` need two values of the same AVM
  type (int/int or bytes/bytes) and compare them; an address never equals a
  ``bytes`` literal (32-byte literals that spell an address are outside the
  modelled fragment).
* Input: a transaction ``Group`` (1..16 ``Txn``), the index of the transaction
  the program governs, and an optional pre-initialisation of scratch slots.

Public API
----------
ZERO_ADDRESS, MAX_UINT64, Txn, Group, Instr, Program, parse, RunResult, run,
Unsupported, ParseError, leaders, block_of, block_trace, version_problems.
"""

from __future__ import annotations

import base64
from typing import Dict, List, Optional, Tuple, Union

# The Algorand zero address: base32(32 zero bytes + last 4 bytes of sha512/256(32 zero bytes)).
# `global ZeroAddress` and `addr AAAA...Y5HFKQ` both push 32 zero bytes.  (Checked by computing
# the checksum, see test_avm_gen.py.)
ZERO_ADDRESS = "AAAAAAAAAAAAAAAAAAAAAAAAAAAAAAAAAAAAAAAAAAAAAAAAAAAAY5HFKQ"
# A well-formed address that is NOT the zero address: its public key is the 32-byte big-endian
# number 10**10 (0x02540be400).  It is easily mistaken for the zero address (tealer's
# `algorand_constants.ZERO_ADDRESS` is this string), so generators use it as a literal.
LOOKALIKE_ZERO_ADDRESS = "AAAAAAAAAAAAAAAAAAAAAAAAAAAAAAAAAAAAAAAAAAAAEVAL4QAJS7JHB4"
MAX_UINT64 = 2**64 - 1

MAX_GROUP_SIZE = 16
MAX_STACK_DEPTH = 1000  # AVM: stack may hold at most 1000 values
MAX_CALL_DEPTH = 8  # AVM: callsub fails when 8 frames are already active
NUM_SCRATCH = 256

Value = Union[int, str, bytes]


class Unsupported(Exception):
    """The program uses something outside the modelled fragment (skip it)."""


class ParseError(Unsupported):
    """The text is not a well-formed program (would not assemble)."""


class _Reject(Exception):
    """Internal: the running program fails (= the transaction is rejected)."""


# --------------------------------------------------------------------------------------
# constants and field tables (AVM specification)
# --------------------------------------------------------------------------------------

# named integer constants accepted by `int`/`pushint`
TYPE_ENUM = {"unknown": 0, "pay": 1, "keyreg": 2, "acfg": 3, "axfer": 4, "afrz": 5, "appl": 6}
ON_COMPLETION = {
    "NoOp": 0,
    "OptIn": 1,
    "CloseOut": 2,
    "ClearState": 3,
    "UpdateApplication": 4,
    "DeleteApplication": 5,
}
NAMED_INT = {**TYPE_ENUM, **ON_COMPLETION}

# transaction fields by AVM type.  Only scalar fields (array fields are outside the fragment).
ADDRESS_FIELDS = (
    "Sender",
    "Receiver",
    "CloseRemainderTo",
    "AssetSender",
    "AssetReceiver",
    "AssetCloseTo",
    "RekeyTo",
    "ConfigAssetManager",
    "ConfigAssetReserve",
    "ConfigAssetFreeze",
    "ConfigAssetClawback",
    "FreezeAssetAccount",
)
INT_FIELDS = (
    "Fee",
    "FirstValid",
    "FirstValidTime",
    "LastValid",
    "Amount",
    "VoteFirst",
    "VoteLast",
    "VoteKeyDilution",
    "TypeEnum",
    "XferAsset",
    "AssetAmount",
    "GroupIndex",
    "ApplicationID",
    "OnCompletion",
    "NumAppArgs",
    "NumAccounts",
    "ConfigAsset",
    "ConfigAssetTotal",
    "ConfigAssetDecimals",
    "ConfigAssetDefaultFrozen",
    "FreezeAsset",
    "FreezeAssetFrozen",
    "NumAssets",
    "NumApplications",
    "GlobalNumUint",
    "GlobalNumByteSlice",
    "LocalNumUint",
    "LocalNumByteSlice",
    "ExtraProgramPages",
    "Nonparticipation",
    "NumLogs",
    "CreatedAssetID",
    "CreatedApplicationID",
    "NumApprovalProgramPages",
    "NumClearStateProgramPages",
)
BYTES_FIELDS = (
    "Note",
    "Lease",
    "VotePK",
    "SelectionPK",
    "Type",
    "TxID",
    "ApprovalProgram",
    "ClearStateProgram",
    "ConfigAssetUnitName",
    "ConfigAssetName",
    "ConfigAssetURL",
    "ConfigAssetMetadataHash",
    "StateProofPK",
    "LastLog",
)

# integer `global` fields with the fixed value the model gives them (GroupSize is the group's size)
GLOBAL_INT_DEFAULTS = {
    "MinTxnFee": 1000,
    "MinBalance": 100000,
    "MaxTxnLife": 1000,
    "LogicSigVersion": 8,
    "Round": 1000,
    "LatestTimestamp": 1700000000,
    "CurrentApplicationID": 77,
    "OpcodeBudget": 700,
    "CallerApplicationID": 0,
    "AssetCreateMinBalance": 100000,
    "AssetOptInMinBalance": 100000,
}

# version in which an opcode of the fragment was introduced (used by `version_problems`)
OP_MIN_VERSION = {
    "int": 1, "byte": 1, "addr": 1, "intcblock": 1, "intc": 1,
    "intc_0": 1, "intc_1": 1, "intc_2": 1, "intc_3": 1,
    "txn": 1, "gtxn": 1, "global": 1,
    "==": 1, "!=": 1, "<": 1, "<=": 1, ">": 1, ">=": 1, "&&": 1, "||": 1, "!": 1,
    "+": 1, "-": 1, "*": 1, "/": 1, "%": 1,
    "dup": 1, "pop": 1, "load": 1, "store": 1, "err": 1, "bnz": 1,
    "b": 2, "bz": 2, "return": 2, "dup2": 2,
    "assert": 3, "gtxns": 3, "dig": 3, "swap": 3, "select": 3, "pushint": 3, "pushbytes": 3,
    "callsub": 4, "retsub": 4,
    "cover": 5, "uncover": 5,
    "bury": 8, "popn": 8, "dupn": 8, "switch": 8, "match": 8,
    "proto": 8, "frame_dig": 8, "frame_bury": 8,
}
# txn/global fields of the fragment that are not available in version 1
FIELD_MIN_VERSION = {
    "ApplicationID": 2, "OnCompletion": 2, "RekeyTo": 2, "NumAppArgs": 2, "NumAccounts": 2,
    "ApprovalProgram": 2, "ClearStateProgram": 2, "ConfigAsset": 2, "FreezeAsset": 2,
}
GLOBAL_MIN_VERSION = {
    "LogicSigVersion": 2, "Round": 2, "LatestTimestamp": 2, "CurrentApplicationID": 2,
    "CreatorAddress": 3, "CurrentApplicationAddress": 5, "GroupID": 5,
    "OpcodeBudget": 6, "CallerApplicationID": 6, "CallerApplicationAddress": 6,
}

BRANCH_OPS = ("b", "bz", "bnz", "callsub")  # one label immediate
MULTI_BRANCH_OPS = ("switch", "match")  # any number of label immediates
# an instruction after one of these starts a new basic block
BLOCK_ENDERS = ("b", "bz", "bnz", "switch", "match", "callsub", "retsub", "return", "err")


# --------------------------------------------------------------------------------------
# inputs
# --------------------------------------------------------------------------------------


class Txn:
    """One group member: a field store with AVM defaults for absent fields."""

    def __init__(self, **fields: Value) -> None:
        for name in fields:
            if name not in ADDRESS_FIELDS and name not in INT_FIELDS and name not in BYTES_FIELDS:
                raise KeyError(f"unknown transaction field {name}")
        self.fields: Dict[str, Value] = dict(fields)

    def get(self, field: str) -> Value:
        """Value of `field`.  GroupIndex is normally supplied by the group (see `Group.field`)."""
        if field in self.fields:
            return self.fields[field]
        if field in ADDRESS_FIELDS:
            return ZERO_ADDRESS
        if field in INT_FIELDS:
            return 0
        if field == "Type":
            # the type as a byte string; derived from TypeEnum
            enum = self.get("TypeEnum")
            for name, num in TYPE_ENUM.items():
                if num == enum and num != 0:
                    return name.encode()
            return b""
        if field in BYTES_FIELDS:
            return b""
        raise Unsupported(f"transaction field {field}")

    def __repr__(self) -> str:
        inner = ", ".join(f"{k}={v!r}" for k, v in sorted(self.fields.items()))
        return f"Txn({inner})"


class Group:
    """A transaction group of 1..16 members plus the global values the fragment can read."""

    def __init__(
        self,
        txns: List[Txn],
        creator: str = "CREATOR_ADDR",
        globals_: Optional[Dict[str, Value]] = None,
    ) -> None:
        if not 1 <= len(txns) <= MAX_GROUP_SIZE:
            raise ValueError("group size must be in 1..16")
        self.txns = list(txns)
        self.creator = creator
        self.globals: Dict[str, Value] = dict(globals_ or {})

    @property
    def size(self) -> int:
        return len(self.txns)

    def field(self, index: int, field: str) -> Value:
        """Field of the member at `index` (caller guarantees index < size)."""
        if field == "GroupIndex":
            return index
        return self.txns[index].get(field)

    def global_field(self, field: str) -> Value:
        if field == "GroupSize":
            return len(self.txns)
        if field == "ZeroAddress":
            return ZERO_ADDRESS
        if field == "CreatorAddress":
            return self.creator
        if field in self.globals:
            return self.globals[field]
        if field in GLOBAL_INT_DEFAULTS:
            return GLOBAL_INT_DEFAULTS[field]
        if field == "CurrentApplicationAddress":
            return "CURRENT_APP_ADDR"
        if field == "CallerApplicationAddress":
            return ZERO_ADDRESS
        if field == "GroupID":
            return b"\x00" * 32
        raise Unsupported(f"global field {field}")

    def __repr__(self) -> str:
        return f"Group({self.txns!r}, creator={self.creator!r})"


# --------------------------------------------------------------------------------------
# parsing (own tiny tokenizer)
# --------------------------------------------------------------------------------------


class Instr:
    """One source line that is not blank/comment.

    op == "label:"  : a label line, args == [name]
    op == "#pragma" : args == ["version", "N"]
    otherwise       : op is the mnemonic, args its immediates as written
    """

    __slots__ = ("line", "op", "args")

    def __init__(self, line: int, op: str, args: List[str]) -> None:
        self.line = line
        self.op = op
        self.args = args

    def __repr__(self) -> str:
        return f"Instr({self.line}, {self.op!r}, {self.args!r})"


class Program:
    def __init__(self, lines: List[str], instrs: List[Instr], version: int, labels: Dict[str, int]):
        self.lines = lines
        self.instrs = instrs
        self.version = version
        self.labels = labels  # label name -> index into instrs of its "label:" Instr


def _tokens(text: str) -> List[str]:
    """Split one source line into tokens.

    Whitespace separates tokens; a double-quoted string (with backslash escapes) is one token;
    `//` outside quotes starts a comment that runs to the end of the line.
    """
    out: List[str] = []
    cur = ""
    i, n = 0, len(text)
    in_quote = False
    while i < n:
        ch = text[i]
        if in_quote:
            cur += ch
            if ch == "\\" and i + 1 < n:
                cur += text[i + 1]
                i += 1
            elif ch == '"':
                in_quote = False
        elif ch == '"':
            in_quote = True
            cur += ch
        elif ch == "/" and i + 1 < n and text[i + 1] == "/":
            break
        elif ch in " \t\r\n":
            if cur:
                out.append(cur)
                cur = ""
        else:
            cur += ch
        i += 1
    if in_quote:
        raise ParseError(f"unterminated string in {text!r}")
    if cur:
        out.append(cur)
    return out


def parse(src: str) -> Program:
    """Parse TEAL source text.  Raises ParseError on text that would not assemble."""
    lines = src.split("\n")
    instrs: List[Instr] = []
    labels: Dict[str, int] = {}
    version = 1  # AVM: a program without #pragma is version 1
    for lineno, text in enumerate(lines, start=1):
        toks = _tokens(text)
        if not toks:
            continue
        if toks[0] == "#pragma":
            if len(toks) != 3 or toks[1] != "version" or not toks[2].isdigit():
                raise ParseError(f"line {lineno}: bad #pragma")
            if instrs:  # must precede every instruction and label, and occur once
                raise ParseError(f"line {lineno}: #pragma version is not the first statement")
            version = int(toks[2])
            instrs.append(Instr(lineno, "#pragma", toks[1:]))
        elif len(toks) == 1 and toks[0].endswith(":") and not toks[0].startswith('"'):
            name = toks[0][:-1]
            if not name:
                raise ParseError(f"line {lineno}: empty label")
            if name in labels:
                raise ParseError(f"line {lineno}: duplicate label {name}")
            labels[name] = len(instrs)
            instrs.append(Instr(lineno, "label:", [name]))
        else:
            instrs.append(Instr(lineno, toks[0], toks[1:]))
    # every branch target must exist
    for ins in instrs:
        if ins.op in BRANCH_OPS:
            if len(ins.args) != 1:
                raise ParseError(f"line {ins.line}: {ins.op} needs one label")
            targets = ins.args
        elif ins.op in MULTI_BRANCH_OPS:
            targets = ins.args
        else:
            continue
        for t in targets:
            if t not in labels:
                raise ParseError(f"line {ins.line}: unknown label {t}")
    return Program(lines, instrs, version, labels)


def _parse_uint(tok: str, line: int) -> int:
    """Integer immediate: decimal, 0x hex, 0-prefixed octal (also 0o / 0b), or a named constant."""
    if tok in NAMED_INT:
        return NAMED_INT[tok]
    t = tok.replace("_", "") if not tok.startswith("_") else tok
    try:
        low = t.lower()
        if low.startswith("0x"):
            v = int(low[2:], 16)
        elif low.startswith("0o"):
            v = int(low[2:], 8)
        elif low.startswith("0b"):
            v = int(low[2:], 2)
        elif len(low) > 1 and low.startswith("0"):
            v = int(low[1:], 8)
        else:
            if not low.isdigit():
                raise ValueError
            v = int(low, 10)
    except ValueError:
        raise ParseError(f"line {line}: bad integer {tok!r}") from None
    if v > MAX_UINT64:
        raise ParseError(f"line {line}: integer {tok!r} exceeds uint64")
    return v


def _parse_small(tok: str, line: int, limit: int = 255) -> int:
    v = _parse_uint(tok, line)
    if v > limit:
        raise ParseError(f"line {line}: immediate {tok!r} out of range")
    return v


_ESCAPES = {"n": b"\n", "r": b"\r", "t": b"\t", "\\": b"\\", '"': b'"'}


def _parse_bytes(args: List[str], line: int) -> bytes:
    """`byte`/`pushbytes` literal.  Known forms are decoded; anything else is kept as opaque text."""
    if not args:
        raise ParseError(f"line {line}: byte needs a literal")
    try:
        a0 = args[0]
        if len(args) == 1:
            if a0.startswith('"') and a0.endswith('"') and len(a0) >= 2:
                out, body, i = b"", a0[1:-1], 0
                while i < len(body):
                    if body[i] == "\\" and i + 1 < len(body):
                        nxt = body[i + 1]
                        if nxt == "x" and i + 3 < len(body):
                            out += bytes([int(body[i + 2 : i + 4], 16)])
                            i += 4
                            continue
                        out += _ESCAPES.get(nxt, nxt.encode())
                        i += 2
                        continue
                    out += body[i].encode()
                    i += 1
                return out
            if a0.lower().startswith("0x"):
                return bytes.fromhex(a0[2:])
            for prefix, dec in (("base64(", "b64"), ("b64(", "b64"), ("base32(", "b32"), ("b32(", "b32")):
                if a0.startswith(prefix) and a0.endswith(")"):
                    return _decode(a0[len(prefix) : -1], dec)
        elif len(args) == 2 and a0 in ("base64", "b64"):
            return _decode(args[1], "b64")
        elif len(args) == 2 and a0 in ("base32", "b32"):
            return _decode(args[1], "b32")
    except (ValueError, base64.binascii.Error):
        pass
    return ("opaque:" + " ".join(args)).encode()


def _decode(text: str, kind: str) -> bytes:
    if kind == "b64":
        return base64.b64decode(text + "=" * (-len(text) % 4), validate=True)
    return base64.b32decode(text + "=" * (-len(text) % 8))


# --------------------------------------------------------------------------------------
# execution
# --------------------------------------------------------------------------------------


class RunResult:
    def __init__(self) -> None:
        self.accepted: bool = False
        self.reason: str = ""
        self.trace: List[int] = []  # indices into Program.instrs, in execution order
        self.lines: List[int] = []  # the source lines of those instructions
        self.stacks: List[Tuple[Value, ...]] = []  # stack before each instruction (if recorded)
        self.steps: int = 0

    def __repr__(self) -> str:
        return f"RunResult(accepted={self.accepted}, reason={self.reason!r}, lines={self.lines})"


def _is_int(v: Value) -> bool:
    return isinstance(v, int)


class _Machine:
    """The mutable machine state and the stack helpers; every failure raises _Reject."""

    def __init__(self, unrelated: Optional[Dict[int, Value]]) -> None:
        self.stack: List[Value] = []
        self.scratch: List[Value] = [0] * NUM_SCRATCH
        self.callstack: List[int] = []
        self.intc: Optional[List[int]] = None
        for slot, val in (unrelated or {}).items():
            if not 0 <= int(slot) < NUM_SCRATCH:
                raise ValueError("scratch slot out of range")
            self.scratch[int(slot)] = val

    def push(self, v: Value) -> None:
        if isinstance(v, bool):
            v = int(v)
        if len(self.stack) >= MAX_STACK_DEPTH:
            raise _Reject("stack overflow")
        self.stack.append(v)

    def pop(self) -> Value:
        if not self.stack:
            raise _Reject("stack underflow")
        return self.stack.pop()

    def pop_int(self, what: str) -> int:
        v = self.pop()
        if not _is_int(v):
            raise _Reject(f"type error: {what} needs uint64")
        return v  # type: ignore[return-value]

    def need(self, n: int) -> None:
        if len(self.stack) < n:
            raise _Reject("stack underflow")


def _imm(ins: Instr, count: int) -> List[str]:
    if len(ins.args) != count:
        raise ParseError(f"line {ins.line}: {ins.op} takes {count} immediate(s)")
    return ins.args


def _read_field(group: Group, index: int, field: str) -> Value:
    if field not in ADDRESS_FIELDS and field not in INT_FIELDS and field not in BYTES_FIELDS:
        raise Unsupported(f"transaction field {field}")
    return group.field(index, field)


def run(
    prog: Program,
    group: Group,
    idx: int,
    unrelated: Optional[Dict[int, Value]] = None,
    max_steps: int = 20000,
    record_stacks: bool = False,
) -> RunResult:
    """Execute `prog` as the program governing member `idx` of `group`.

    Raises Unsupported (or its subclass ParseError) when the program leaves the modelled
    fragment; otherwise returns the verdict with the executed instruction trace.
    """
    if not 0 <= idx < group.size:
        raise ValueError("own index must be < group size")
    res = RunResult()
    m = _Machine(unrelated)
    instrs = prog.instrs
    pc = 0
    try:
        while True:
            if pc >= len(instrs):
                # falling off the end: exactly one value, a non-zero uint64
                if len(m.stack) != 1:
                    raise _Reject(f"end of program with {len(m.stack)} values on the stack")
                top = m.stack[0]
                if not _is_int(top):
                    raise _Reject("end of program with a byte string on the stack")
                res.accepted = top != 0
                res.reason = "ok" if res.accepted else "end of program with 0 on the stack"
                return res
            if res.steps >= max_steps:
                raise _Reject("step limit exceeded")
            res.steps += 1
            ins = instrs[pc]
            res.trace.append(pc)
            res.lines.append(ins.line)
            if record_stacks:
                res.stacks.append(tuple(m.stack))
            nxt = _step(prog, group, idx, m, pc, ins)
            if nxt is None:  # `return`
                top = m.pop_int("return")
                res.accepted = top != 0
                res.reason = "ok" if res.accepted else "return with 0"
                return res
            pc = nxt
    except _Reject as exc:
        res.accepted = False
        res.reason = str(exc)
        return res


def _step(prog: Program, group: Group, idx: int, m: _Machine, pc: int, ins: Instr) -> Optional[int]:
    """Execute one instruction; returns the next pc, or None for `return`."""
    op = ins.op
    line = ins.line

    # ---- no-ops -------------------------------------------------------------------------
    if op in ("label:", "#pragma"):
        return pc + 1

    # ---- constants ----------------------------------------------------------------------
    if op in ("int", "pushint"):
        m.push(_parse_uint(_imm(ins, 1)[0], line))
        return pc + 1
    if op == "intcblock":
        m.intc = [_parse_uint(a, line) for a in ins.args]
        return pc + 1
    if op in ("intc", "intc_0", "intc_1", "intc_2", "intc_3"):
        k = _parse_small(_imm(ins, 1)[0], line) if op == "intc" else int(op[-1])
        if m.intc is None or k >= len(m.intc):
            raise _Reject(f"intc {k} beyond the constant block")
        m.push(m.intc[k])
        return pc + 1
    if op == "addr":
        m.push(str(_imm(ins, 1)[0]))
        return pc + 1
    if op in ("byte", "pushbytes"):
        m.push(_parse_bytes(ins.args, line))
        return pc + 1

    # ---- reads --------------------------------------------------------------------------
    if op == "txn":
        m.push(_read_field(group, idx, _imm(ins, 1)[0]))
        return pc + 1
    if op == "gtxn":
        i_tok, field = _imm(ins, 2)
        i = _parse_small(i_tok, line)
        if i >= group.size:
            raise _Reject(f"gtxn {i} beyond group size {group.size}")
        m.push(_read_field(group, i, field))
        return pc + 1
    if op == "gtxns":
        field = _imm(ins, 1)[0]
        i = m.pop_int("gtxns")
        if i >= group.size:
            raise _Reject(f"gtxns {i} beyond group size {group.size}")
        m.push(_read_field(group, i, field))
        return pc + 1
    if op == "global":
        m.push(group.global_field(_imm(ins, 1)[0]))
        return pc + 1

    # ---- comparison / logic / arithmetic ------------------------------------------------
    if op in ("==", "!="):
        b = m.pop()
        a = m.pop()
        if _is_int(a) != _is_int(b):
            raise _Reject(f"type error: {op} on uint64 and bytes")
        if _is_int(a):
            eq = a == b
        else:
            # addresses (str) and literals (bytes) are both AVM bytes; different kinds never equal
            eq = type(a) is type(b) and a == b
        m.push(int(eq if op == "==" else not eq))
        return pc + 1
    if op in ("<", "<=", ">", ">=", "&&", "||", "+", "-", "*", "/", "%"):
        b = m.pop_int(op)  # B was pushed last
        a = m.pop_int(op)  # A was pushed first; the result is `A op B`
        if op == "<":
            r = int(a < b)
        elif op == "<=":
            r = int(a <= b)
        elif op == ">":
            r = int(a > b)
        elif op == ">=":
            r = int(a >= b)
        elif op == "&&":
            r = int(a != 0 and b != 0)
        elif op == "||":
            r = int(a != 0 or b != 0)
        elif op == "+":
            r = a + b
            if r > MAX_UINT64:
                raise _Reject("+ overflowed")
        elif op == "-":
            if b > a:
                raise _Reject("- would result negative")
            r = a - b
        elif op == "*":
            r = a * b
            if r > MAX_UINT64:
                raise _Reject("* overflowed")
        elif op == "/":
            if b == 0:
                raise _Reject("/ 0")
            r = a // b
        else:
            if b == 0:
                raise _Reject("% 0")
            r = a % b
        m.push(r)
        return pc + 1
    if op == "!":
        a = m.pop_int("!")
        m.push(int(a == 0))
        return pc + 1

    # ---- stack manipulation -------------------------------------------------------------
    if op == "dup":
        m.need(1)
        m.push(m.stack[-1])
        return pc + 1
    if op == "dup2":
        m.need(2)
        a, b = m.stack[-2], m.stack[-1]
        m.push(a)
        m.push(b)
        return pc + 1
    if op == "swap":
        m.need(2)
        m.stack[-1], m.stack[-2] = m.stack[-2], m.stack[-1]
        return pc + 1
    if op == "pop":
        m.pop()
        return pc + 1
    if op == "dig":
        n = _parse_small(_imm(ins, 1)[0], line)
        m.need(n + 1)
        m.push(m.stack[-1 - n])
        return pc + 1
    if op == "cover":
        # remove the top value and insert it below the next n values
        n = _parse_small(_imm(ins, 1)[0], line)
        m.need(n + 1)
        top = m.stack.pop()
        m.stack.insert(len(m.stack) - n, top)
        return pc + 1
    if op == "uncover":
        # remove the value at depth n (0 = top) and push it on top
        n = _parse_small(_imm(ins, 1)[0], line)
        m.need(n + 1)
        v = m.stack.pop(len(m.stack) - 1 - n)
        m.stack.append(v)
        return pc + 1
    if op == "bury":
        # pop A, then replace the n-th value from the (new) top with A; bury 0 fails
        n = _parse_small(_imm(ins, 1)[0], line)
        if n == 0:
            raise _Reject("bury 0")
        m.need(n + 1)
        a = m.stack.pop()
        m.stack[-n] = a
        return pc + 1
    if op == "popn":
        n = _parse_small(_imm(ins, 1)[0], line)
        m.need(n)
        if n:
            del m.stack[-n:]
        return pc + 1
    if op == "dupn":
        n = _parse_small(_imm(ins, 1)[0], line)
        m.need(1)
        for _ in range(n):
            m.push(m.stack[-1])
        return pc + 1
    if op == "select":
        # A B C -> B if C != 0 else A
        c = m.pop_int("select")
        b = m.pop()
        a = m.pop()
        m.push(b if c != 0 else a)
        return pc + 1
    if op == "load":
        m.push(m.scratch[_parse_small(_imm(ins, 1)[0], line)])
        return pc + 1
    if op == "store":
        slot = _parse_small(_imm(ins, 1)[0], line)
        m.scratch[slot] = m.pop()
        return pc + 1

    # ---- termination --------------------------------------------------------------------
    if op == "assert":
        if m.pop_int("assert") == 0:
            raise _Reject(f"assert failed at line {line}")
        return pc + 1
    if op == "err":
        raise _Reject(f"err at line {line}")
    if op == "return":
        m.need(1)
        return None  # handled by the caller: stops immediately, even inside a subroutine

    # ---- control flow -------------------------------------------------------------------
    if op == "b":
        return prog.labels[ins.args[0]]
    if op == "bz":
        return prog.labels[ins.args[0]] if m.pop_int("bz") == 0 else pc + 1
    if op == "bnz":
        return prog.labels[ins.args[0]] if m.pop_int("bnz") != 0 else pc + 1
    if op == "switch":
        i = m.pop_int("switch")
        return prog.labels[ins.args[i]] if i < len(ins.args) else pc + 1
    if op == "match":
        # stack: A1 .. An B ; jump to the label of the first Ai equal to B, else fall through.
        # A value of the other AVM type simply does not match (no failure).
        n = len(ins.args)
        m.need(n + 1)
        b = m.stack.pop()
        cands = m.stack[len(m.stack) - n :] if n else []
        if n:
            del m.stack[-n:]
        for k, a in enumerate(cands):
            if type(a) is type(b) and a == b:
                return prog.labels[ins.args[k]]
        return pc + 1
    if op == "callsub":
        if len(m.callstack) >= MAX_CALL_DEPTH:
            raise _Reject("call stack overflow")
        m.callstack.append(pc + 1)
        return prog.labels[ins.args[0]]
    if op == "retsub":
        if not m.callstack:
            raise _Reject("retsub with empty call stack")
        return m.callstack.pop()

    if op in ("proto", "frame_dig", "frame_bury"):
        raise Unsupported(f"line {line}: {op} (frame opcodes are not modelled)")
    raise Unsupported(f"line {line}: opcode {op}")


# --------------------------------------------------------------------------------------
# static helpers
# --------------------------------------------------------------------------------------


def version_problems(prog: Program) -> List[str]:
    """Reasons why the program would not assemble under its own `#pragma version`.

    Covers opcode and field introduction versions of the fragment and the rule that before
    version 4 branches may only go forward.
    """
    out: List[str] = []
    v = prog.version
    for k, ins in enumerate(prog.instrs):
        if ins.op in ("label:", "#pragma"):
            continue
        need = OP_MIN_VERSION.get(ins.op)
        if need is None:
            out.append(f"line {ins.line}: opcode {ins.op} is outside the fragment")
            continue
        if need > v:
            out.append(f"line {ins.line}: {ins.op} needs version {need}, program is {v}")
        if ins.op in ("txn", "gtxn", "gtxns") and ins.args:
            f = ins.args[-1]
            if FIELD_MIN_VERSION.get(f, 1) > v:
                out.append(f"line {ins.line}: field {f} needs version {FIELD_MIN_VERSION[f]}")
        if ins.op == "global" and ins.args:
            f = ins.args[0]
            if GLOBAL_MIN_VERSION.get(f, 1) > v:
                out.append(f"line {ins.line}: global {f} needs version {GLOBAL_MIN_VERSION[f]}")
        if v < 4 and ins.op in ("b", "bz", "bnz"):
            if prog.labels[ins.args[0]] < k:
                out.append(f"line {ins.line}: backward branch needs version 4")
    return out


def leaders(prog: Program) -> List[int]:
    """Indices of the instructions that start a basic block (all instructions, also dead ones).

    Definition: the first instruction; every label line; the instruction after any of
    b / bz / bnz / switch / match / callsub / retsub / return / err.
    """
    found = set()
    for k, ins in enumerate(prog.instrs):
        if k == 0 or ins.op == "label:":
            found.add(k)
        if ins.op in BLOCK_ENDERS and k + 1 < len(prog.instrs):
            found.add(k + 1)
    return sorted(found)


def block_of(prog: Program) -> Dict[int, int]:
    """instruction index -> index of the leader of its basic block."""
    lead = set(leaders(prog))
    out: Dict[int, int] = {}
    cur = 0
    for k in range(len(prog.instrs)):
        if k in lead:
            cur = k
        out[k] = cur
    return out


def block_trace(prog: Program, res: RunResult) -> List[int]:
    """Leaders of the blocks visited by the run, in order.

    A new visit starts whenever the executed instruction is a leader (every entry into a block,
    by fall-through, jump, call or return, lands on its leader) or, defensively, whenever
    execution did not simply step to the next instruction of the same block.
    """
    lead = set(leaders(prog))
    owner = block_of(prog)
    out: List[int] = []
    prev: Optional[int] = None
    for k in res.trace:
        if k in lead or prev is None or k != prev + 1:
            out.append(owner[k])
        prev = k
    return out
