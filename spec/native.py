"""Native (concrete) counterparts of the ghost semantics, used to replay counterexamples on the real code
and by the bounded stand-ins.  A NativeVisit is one concrete visit: a transaction group, the own index, and a
valuation for the results of opcodes outside the modelled fragment.

Written from the AVM rules quoted in the properties (same table as spec/avm_axioms.py).
"""
from __future__ import annotations

from typing import Any, Dict, List, Optional

ZERO_ADDRESS = "AAAAAAAAAAAAAAAAAAAAAAAAAAAAAAAAAAAAAAAAAAAAAAAAAAAAY5HFKQ"  # the AVM zero address (32 zero bytes + checksum)
NAMED_CONSTANTS = {
    "unknown": 0, "pay": 1, "keyreg": 2, "acfg": 3, "axfer": 4, "afrz": 5, "appl": 6,
    "NoOp": 0, "OptIn": 1, "CloseOut": 2, "ClearState": 3, "UpdateApplication": 4, "DeleteApplication": 5,
}
MAX_UINT64 = 2 ** 64 - 1


class Undefined(Exception):
    """The visit cannot complete this instruction (e.g. gtxn index beyond the group)."""


class NativeVisit:
    def __init__(self, gsize: int = 1, gidx: int = 0, members: Optional[List[Dict[str, Any]]] = None,
                 creator: str = "CREATORADDR", opaque: Optional[Dict[Any, int]] = None, default_opaque: int = 0):
        self.gsize = gsize
        self.gidx = gidx
        self.members = members if members is not None else [dict() for _ in range(gsize)]
        self.creator = creator
        self.opaque = opaque or {}
        self.default_opaque = default_opaque

    def field(self, idx: int, fname: str) -> Any:
        if idx < 0 or idx >= self.gsize:
            raise Undefined(f"member {idx} of a group of {self.gsize}")
        if fname == "GroupIndex":
            return idx
        m = self.members[idx]
        if fname in m:
            return m[fname]
        if fname in ("RekeyTo", "CloseRemainderTo", "AssetCloseTo", "Sender", "Receiver", "AssetReceiver"):
            return ZERO_ADDRESS
        return 0

    def __repr__(self) -> str:
        return f"NativeVisit(gsize={self.gsize}, gidx={self.gidx}, members={self.members}, creator={self.creator!r})"


def native_ev(v: NativeVisit, sv: Any) -> Any:
    """Value denoted by a real (Known|Unknown)StackValue in visit v."""
    cn = type(sv).__name__
    if cn == "UnknownStackValue":
        return v.opaque.get(id(sv), v.default_opaque)
    ins = sv.instruction
    k = type(ins).__name__
    a = sv.args
    B = lambda x: 1 if x else 0  # noqa: E731
    if k in ("Eq", "Neq", "Less", "LessE", "Greater", "GreaterE", "And", "Or", "Add", "Sub"):
        x, y = native_ev(v, a[0]), native_ev(v, a[1])
        if k == "Eq":
            return B(x == y)
        if k == "Neq":
            return B(x != y)
        if k == "Less":
            return B(x < y)
        if k == "LessE":
            return B(x <= y)
        if k == "Greater":
            return B(x > y)
        if k == "GreaterE":
            return B(x >= y)
        if k == "And":
            return B(x != 0 and y != 0)
        if k == "Or":
            return B(x != 0 or y != 0)
        if k == "Add":
            if x + y > MAX_UINT64:
                raise Undefined("+ overflow")
            return x + y
        if x - y < 0:
            raise Undefined("- underflow")
        return x - y
    if k == "Not":
        return B(native_ev(v, a[0]) == 0)
    if k in ("Int", "PushInt"):
        val = ins.value
        return val if isinstance(val, int) else NAMED_CONSTANTS.get(val, v.opaque.get(("named", val), 0))
    if k in ("Intc", "Intc0", "Intc1", "Intc2", "Intc3"):
        bb = getattr(ins, "_bb", None)
        if bb is not None and bb.teal is not None:
            known, val = bb.teal.get_int_constant(ins.index)
            if known:
                return val
        return v.opaque.get((id(ins), 0), v.default_opaque)
    if k == "Txn":
        return v.field(v.gidx, type(ins.field).__name__)
    if k == "Gtxn":
        return v.field(ins.idx, type(ins.field).__name__)
    if k == "Gtxns":
        return v.field(native_ev(v, a[0]), type(ins.field).__name__)
    if k == "Global":
        f = type(ins.field).__name__
        if f == "GroupSize":
            return v.gsize
        if f == "ZeroAddress":
            return ZERO_ADDRESS
        if f == "CreatorAddress":
            return v.creator
        return v.opaque.get(("global", f), v.default_opaque)
    if k == "Addr":
        return ins.addr
    return v.opaque.get((id(ins), sv.ins_out_values_index), v.default_opaque)


def key_target(v: NativeVisit, key: str) -> Optional[int]:
    """tgt(key, sigma): index of the transaction the analysis key speaks about, or None if undefined (DESIGN §5.3).
    Uses tealer's own key recognisers/inverter (a bijection checked exhaustively under C10)."""
    from tealer.analyses.dataflow.transaction_context.utils import key_helpers as kh
    if kh.is_gtxn_at_index_key(key):
        i, _ = kh.get_ind_base_for_gtxn_type_keys(key)
        return i if v.gidx == i else None
    if kh.is_absolute_index_key(key):
        i, _ = kh.get_ind_base_for_gtxn_type_keys(key)
        return i if 0 <= i < v.gsize else None
    if kh.is_relative_index_key(key):
        k, _ = kh.get_ind_base_for_gtxn_type_keys(key)
        j = v.gidx + k
        return j if 0 <= j < v.gsize else None
    return v.gidx


def key_base(key: str) -> str:
    from tealer.analyses.dataflow.transaction_context.utils import key_helpers as kh
    if kh.is_gtxn_at_index_key(key) or kh.is_absolute_index_key(key) or kh.is_relative_index_key(key):
        return kh.get_ind_base_for_gtxn_type_keys(key)[1]
    return key


def native_keydef(v: NativeVisit, key: str) -> bool:
    return key_target(v, key) is not None


def native_keyfld(v: NativeVisit, key: str, field: Optional[str] = None) -> Any:
    t = key_target(v, key)
    if t is None:
        raise Undefined(f"tgt({key}) undefined")
    return v.field(t, field or key_base(key))


# ------------------------------------------------------------------------------------------------
# syntactic specification of "stack value is a read of the field tracked by key" (C10's three sentences)
# ------------------------------------------------------------------------------------------------

def _is_own_index(sv: Any) -> bool:
    return type(sv).__name__ == "KnownStackValue" and type(sv.instruction).__name__ == "Txn" \
        and type(sv.instruction.field).__name__ == "GroupIndex"


def native_int_lit(ins: Any) -> Optional[int]:
    k = type(ins).__name__
    if k in ("Int", "PushInt"):
        return ins.value if isinstance(ins.value, int) else None
    if k in ("Intc", "Intc0", "Intc1", "Intc2", "Intc3"):
        bb = getattr(ins, "_bb", None)
        if bb is not None and bb.teal is not None:
            known, val = bb.teal.get_int_constant(ins.index)
            if known and isinstance(val, int):
                return val
    return None


def classify_index(sv: Any) -> Any:
    """('self',) | ('abs', i) | ('rel', k) | None for the index operand of gtxns."""
    if type(sv).__name__ != "KnownStackValue":
        return None
    if _is_own_index(sv):
        return ("self",)
    lit = native_int_lit(sv.instruction)
    if lit is not None:
        return ("abs", lit)
    k = type(sv.instruction).__name__
    if k in ("Add", "Sub"):
        a0, a1 = sv.args[0], sv.args[1]
        if type(a0).__name__ != "KnownStackValue" or type(a1).__name__ != "KnownStackValue":
            return None
        if k == "Sub":
            if _is_own_index(a0):
                c = native_int_lit(a1.instruction)
                return ("rel", -c) if c is not None else None
            return None
        if _is_own_index(a0):
            c = native_int_lit(a1.instruction)
            return ("rel", c) if c is not None else None
        if _is_own_index(a1):
            c = native_int_lit(a0.instruction)
            return ("rel", c) if c is not None else None
    return None


def classify_read(sv: Any) -> Any:
    """(index classification, field class name) of a transaction-field read, or None."""
    if type(sv).__name__ != "KnownStackValue":
        return None
    ins = sv.instruction
    k = type(ins).__name__
    if k == "Txn":
        return ("self",), type(ins.field).__name__
    if k == "Gtxn":
        return ("abs", ins.idx), type(ins.field).__name__
    if k == "Gtxns":
        ix = classify_index(sv.args[0])
        if ix is None:
            return None
        return ix, type(ins.field).__name__
    return None


def native_is_field_read(key: str, sv: Any, field: Optional[str] = None) -> bool:
    from tealer.analyses.dataflow.transaction_context.utils import key_helpers as kh
    r = classify_read(sv)
    if r is None:
        return False
    ix, fname = r
    if fname != (field or key_base(key)):
        return False
    if kh.is_gtxn_at_index_key(key) or kh.is_absolute_index_key(key):
        return ix == ("abs", kh.get_ind_base_for_gtxn_type_keys(key)[0])
    if kh.is_relative_index_key(key):
        return ix == ("rel", kh.get_ind_base_for_gtxn_type_keys(key)[0])
    return ix == ("self",)
