"""Analysis keys and field reads (DESIGN.md §5.3, §6.3, §6.4; property C10).

Abstract view of an analysis key:  KEYKIND (0 base, 1 this-transaction-at-index, 2 absolute, 3 relative),
KEYIDX (index / offset), KEYBASE (the base key string).  The string format itself is tealer's business: the
constructors / recognisers / inverter are tied to this view by contracts that are decided *exhaustively* over the finite
key space (bounded/keyspace.py), so a change of spelling that keeps the bijection does not alarm.

tgt(key, sigma) -- the transaction a key speaks about -- is the property's three sentences:
  base           the transaction running the contract
  at-index i     that same transaction, provided its GroupIndex is i (undefined otherwise)
  absolute i     Gtxn[i]            (defined when i < GroupSize)
  relative k     Gtxn[GroupIndex+k] (defined when in range)

ISFIELDREAD(key, sv): sv is syntactically `txn f` / `gtxn i f` / `<index>; gtxns f` with f the key's field and an
index expression of the form the key's kind demands (own index; literal i; GroupIndex +/- literal k).
"""
from __future__ import annotations

from typing import Any, List, Tuple

import z3

from pyvc.execbase import TYPEOF
from pyvc.loader import class_table
from pyvc.values import V, VBool, VInt, VRef, VStr, VUnion, abs_sort, _s
from spec import native as N
from spec.avm_axioms import cls_is, cls_id, GIDX, GSIZE, TXNFLD, EV, VAL
from spec.ghost import (ISFIELDREAD, ISFIELDREAD_F, KEYDEF, KEYFLD, KEYFLD_F, HASINTLIT, INTLIT)

KEYKIND = z3.Function("KEYKIND", z3.StringSort(), z3.IntSort())
KEYIDX = z3.Function("KEYIDX", z3.StringSort(), z3.IntSort())
KEYBASE = z3.Function("KEYBASE", z3.StringSort(), z3.StringSort())
FIELDCLS = z3.Function("FIELDCLS", z3.StringSort(), z3.IntSort())   # class id of the transaction field a base key tracks

# base keys of the four analyses -> field class (property text; cross-checked against TX_FIELD_TXT_TO_OBJECT natively)
BASE_FIELDS = {"Fee": "Fee", "RekeyTo": "RekeyTo", "CloseRemainderTo": "CloseRemainderTo", "AssetCloseTo": "AssetCloseTo",
               "Sender": "Sender"}
OTHER_BASE_KEYS = ["TransactionType", "GroupSize", "GroupIndex"]


def valid_key_term(k: Any) -> Any:
    bases = list(BASE_FIELDS) + OTHER_BASE_KEYS
    kind, idx = KEYKIND(k), KEYIDX(k)
    return z3.And(kind >= 0, kind <= 3,
                  z3.Or([KEYBASE(k) == z3.StringVal(b) for b in bases]),
                  z3.Implies(kind == 0, KEYBASE(k) == k),
                  z3.Implies(z3.Or(kind == 1, kind == 2), z3.And(idx >= 0, idx <= 15)),
                  z3.Implies(kind == 3, z3.And(idx >= -15, idx <= 15, idx != 0)),
                  *[z3.Implies(KEYBASE(k) == z3.StringVal(b), FIELDCLS(KEYBASE(k)) == cls_id(f)) for b, f in BASE_FIELDS.items()])


def valid_key(key: Any) -> Any:
    if isinstance(key, V):
        return VBool(valid_key_term(key.term))
    return True


def key_kind(key: Any) -> Any:
    if isinstance(key, V):
        return VInt(KEYKIND(key.term))
    from tealer.analyses.dataflow.transaction_context.utils import key_helpers as kh
    return 1 if kh.is_gtxn_at_index_key(key) else 2 if kh.is_absolute_index_key(key) else 3 if kh.is_relative_index_key(key) else 0


def key_idx(key: Any) -> Any:
    if isinstance(key, V):
        return VInt(KEYIDX(key.term))
    from tealer.analyses.dataflow.transaction_context.utils import key_helpers as kh
    return kh.get_ind_base_for_gtxn_type_keys(key)[0] if key_kind(key) != 0 else 0


def key_base(key: Any) -> Any:
    if isinstance(key, V):
        return VStr(KEYBASE(key.term))
    return N.key_base(key)


def key_semantics(vt: Any, k: Any, fcls: Any = None) -> List[Any]:
    """Definition of KEYDEF / KEYFLD (/ KEYFLD_F for an explicit field class) from the abstract view of the key."""
    kind, idx = KEYKIND(k), KEYIDX(k)
    g, n = GIDX(vt), GSIZE(vt)
    tgt = z3.If(kind == 0, g, z3.If(z3.Or(kind == 1, kind == 2), idx, g + idx))
    defined = z3.If(kind == 0, z3.BoolVal(True),
                    z3.If(kind == 1, g == idx, z3.If(kind == 2, z3.And(idx >= 0, idx < n), z3.And(g + idx >= 0, g + idx < n))))
    out = [KEYDEF(vt, k) == defined]
    if fcls is None:
        out.append(KEYFLD(vt, k) == TXNFLD(vt, tgt, FIELDCLS(KEYBASE(k))))
    else:
        out.append(KEYFLD_F(vt, k, fcls) == TXNFLD(vt, tgt, fcls))
    return out


# ------------------------------------------------------------------------------------------------
# syntactic classification of a stack value as a transaction-field read (symbolic mirror of spec/native.classify_read)
# ------------------------------------------------------------------------------------------------
# index classification codes: 0 self, 1 absolute, 2 relative, 3 none
def _node(ex: Any, st: Any, n: Any) -> Tuple[Any, Any, Any, Any]:
    """(is_known, ins term, arg0 term, arg1 term) of the stack value with address term n"""
    I = z3.IntSort()
    ct = class_table()
    K = ct.cls("KnownStackValue")
    known = z3.And(TYPEOF(n) >= ct.lo[K], TYPEOF(n) < ct.hi[K])
    ins = z3.Select(st.harr("F:KnownStackValue._ins", I, I), n)
    args = z3.Select(st.harr("F:KnownStackValue._args", I, I), n)
    el = st.harr("L.elem:Int", I, z3.ArraySort(I, I))
    return known, ins, z3.Select(z3.Select(el, args), 0), z3.Select(z3.Select(el, args), 1)


def _fieldcls_of(ex: Any, st: Any, ins: Any, cname: str) -> Any:
    I = z3.IntSort()
    return TYPEOF(z3.Select(st.harr(f"F:{cname}._field", I, I), ins))


def _is_own_index(ex: Any, st: Any, n: Any) -> Any:
    known, ins, _, _ = _node(ex, st, n)
    return z3.And(known, cls_is(ex, ins, "Txn"), _fieldcls_of(ex, st, ins, "Txn") == cls_id("GroupIndex"))


def _lit(ex: Any, st: Any, n: Any) -> Tuple[Any, Any]:
    known, ins, _, _ = _node(ex, st, n)
    return z3.And(known, HASINTLIT(ins)), INTLIT(ins)


def classify_index_term(ex: Any, st: Any, n: Any) -> Tuple[Any, Any]:
    """(code, value) for the index operand n of a gtxns"""
    known, ins, a0, a1 = _node(ex, st, n)
    own = _is_own_index(ex, st, n)
    haslit, lit = _lit(ex, st, n)
    k0, _, _, _ = _node(ex, st, a0)
    k1, _, _, _ = _node(ex, st, a1)
    own0, own1 = _is_own_index(ex, st, a0), _is_own_index(ex, st, a1)
    l0, v0 = _lit(ex, st, a0)
    l1, v1 = _lit(ex, st, a1)
    is_sub = z3.And(known, cls_is(ex, ins, "Sub"), k0, k1)
    is_add = z3.And(known, cls_is(ex, ins, "Add"), k0, k1)
    code = z3.If(own, 0, z3.If(haslit, 1,
                 z3.If(z3.And(is_sub, own0, l1), 2,
                       z3.If(z3.And(is_add, own0, l1), 2,
                             z3.If(z3.And(is_add, z3.Not(own0), own1, l0), 2, 3)))))
    val = z3.If(own, 0, z3.If(haslit, lit,
                z3.If(z3.And(is_sub, own0, l1), -v1,
                      z3.If(z3.And(is_add, own0, l1), v1, v0))))
    return code, val


def classify_read_term(ex: Any, st: Any, n: Any) -> Tuple[Any, Any, Any, Any]:
    """(is_read, index code, index value, field class id) of stack value n"""
    I = z3.IntSort()
    known, ins, a0, _ = _node(ex, st, n)
    is_txn = z3.And(known, cls_is(ex, ins, "Txn"))
    is_gtxn = z3.And(known, cls_is(ex, ins, "Gtxn"))
    is_gtxns = z3.And(known, cls_is(ex, ins, "Gtxns"))
    gidx = z3.Select(st.harr("F:Gtxn._idx", I, I), ins)
    ic, iv = classify_index_term(ex, st, a0)
    code = z3.If(is_txn, 0, z3.If(is_gtxn, 1, ic))
    val = z3.If(is_txn, 0, z3.If(is_gtxn, gidx, iv))
    fcls = z3.If(is_txn, _fieldcls_of(ex, st, ins, "Txn"),
                 z3.If(is_gtxn, _fieldcls_of(ex, st, ins, "Gtxn"), _fieldcls_of(ex, st, ins, "Gtxns")))
    is_read = z3.And(z3.Or(is_txn, is_gtxn, is_gtxns), code != 3)
    return is_read, code, val, fcls


def field_read_definition(ex: Any, st: Any, k: Any, n: Any, fcls: Any = None) -> List[Any]:
    """Definition of ISFIELDREAD(k, n) (or ISFIELDREAD_F with an explicit field class)."""
    is_read, code, val, rf = classify_read_term(ex, st, n)
    kind, idx = KEYKIND(k), KEYIDX(k)
    want = FIELDCLS(KEYBASE(k)) if fcls is None else fcls
    # the read's field class must be (a subclass of) the wanted one: field classes are leaves, so equality
    from pyvc.execbase import CLS_LO, CLS_HI
    fmatch = (rf == want) if fcls is None else z3.And(CLS_LO(want) <= rf, rf < CLS_HI(want))
    match = z3.And(is_read, fmatch,
                   z3.If(kind == 0, code == 0,
                         z3.If(z3.Or(kind == 1, kind == 2), z3.And(code == 1, val == idx), z3.And(code == 2, val == idx))))
    lhs = ISFIELDREAD(k, n) if fcls is None else ISFIELDREAD_F(k, n, fcls)
    from spec.ghost import READFIELDCLS
    return [lhs == match, z3.Implies(is_read, READFIELDCLS(n) == rf)]
