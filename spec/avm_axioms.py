"""AVM semantics of the modelled fragment as axioms over uninterpreted symbols (DESIGN.md §5.1).

Trusted specification, written from the AVM rules quoted in the properties.  A *visit* `v` is one execution
of one basic block inside a run on some transaction group; every instruction of the block that the visit
reaches completes successfully up to the point considered.

  VAL(v, u, k)        k-th value pushed by instruction u in visit v  (uint64 as itself; byte strings as codes)
  EV(v, n)            value denoted by the reconstructed stack value n:  Known(ins,args,k) -> VAL(v, ins, k)
  GSIZE(v), GIDX(v)   group size (1..16) and own index (< size) of the run the visit belongs to
  TXNFLD(v, i, f)     value of field class f of the group member at index i
  CREATOR(v)          code of the application creator address
  ADDRCODE(s)         injective code of an address literal; NAMED(s) value of a named integer constant

For `A B <` the result is `A < B` with A pushed first, i.e. A = args[0], B = args[1].
Opcodes outside the fragment get no axiom (their values are arbitrary).
"""
from __future__ import annotations

from typing import Any, List

import z3

from pyvc.execbase import ON_TOUCH, TYPEOF, FIELD_TYPES, VIRTUAL_PROPS
from pyvc.values import T, VRef, VUnion, VInt, VStr, abs_sort
from pyvc.loader import class_table

Visit = abs_sort("Visit")
VAL = z3.Function("VAL", Visit, z3.IntSort(), z3.IntSort(), z3.IntSort())
EV = z3.Function("EV", Visit, z3.IntSort(), z3.IntSort())
GSIZE = z3.Function("GSIZE", Visit, z3.IntSort())
GIDX = z3.Function("GIDX", Visit, z3.IntSort())
TXNFLD = z3.Function("TXNFLD", Visit, z3.IntSort(), z3.IntSort(), z3.IntSort())
CREATOR = z3.Function("CREATOR", Visit, z3.IntSort())
ADDRCODE = z3.Function("ADDRCODE", z3.StringSort(), z3.IntSort())
ADDRDECODE = z3.Function("ADDRDECODE", z3.IntSort(), z3.StringSort())
NAMED = z3.Function("NAMED", z3.StringSort(), z3.IntSort())
RANK = z3.Function("RANK", z3.IntSort(), z3.IntSort())  # stack-value trees are built bottom-up: well founded

MAX_UINT64 = 2 ** 64 - 1
ZERO_ADDRESS = "AAAAAAAAAAAAAAAAAAAAAAAAAAAAAAAAAAAAAAAAAAAAAAAAAAAAY5HFKQ"  # the Algorand zero address: 32 zero bytes + checksum

# named integer constants the assembler accepts for `int` (TypeEnum and OnCompletion names)
NAMED_CONSTANTS = {
    "unknown": 0, "pay": 1, "keyreg": 2, "acfg": 3, "axfer": 4, "afrz": 5, "appl": 6,
    "NoOp": 0, "OptIn": 1, "CloseOut": 2, "ClearState": 3, "UpdateApplication": 4, "DeleteApplication": 5,
}

# schema entries the annotations do not give
VIRTUAL_PROPS[("Instruction", "stack_pop_size")] = T.Int
VIRTUAL_PROPS[("Instruction", "stack_push_size")] = T.Int

ACTIVE_SETS = set()   # optional axiom families switched on by the contract under verification: {"addr"}

BINOPS = {
    "Eq": lambda a, b: z3.If(a == b, 1, 0),
    "Neq": lambda a, b: z3.If(a != b, 1, 0),
    "Less": lambda a, b: z3.If(a < b, 1, 0),
    "LessE": lambda a, b: z3.If(a <= b, 1, 0),
    "Greater": lambda a, b: z3.If(a > b, 1, 0),
    "GreaterE": lambda a, b: z3.If(a >= b, 1, 0),
    "And": lambda a, b: z3.If(z3.And(a != 0, b != 0), 1, 0),
    "Or": lambda a, b: z3.If(z3.Or(a != 0, b != 0), 1, 0),
    "Add": lambda a, b: a + b,      # the visit completes, hence no overflow
    "Sub": lambda a, b: a - b,      # the visit completes, hence no underflow
}


def cls_is(ex: Any, term: Any, name: str) -> Any:
    ct = class_table()
    c = ct.cls(name)
    return z3.And(TYPEOF(term) >= ct.lo[c], TYPEOF(term) < ct.hi[c])


def cls_id(name: str) -> int:
    ct = class_table()
    return ct.lo[ct.cls(name)]


def global_facts(v: Any) -> List[Any]:
    i = z3.Int("adx")
    return [GSIZE(v) >= 1, GSIZE(v) <= 16, GIDX(v) >= 0, GIDX(v) < GSIZE(v),
            TXNFLD(v, GIDX(v), cls_id("GroupIndex")) == GIDX(v)]


def addr_inj(s: Any) -> Any:
    return ADDRDECODE(ADDRCODE(s)) == s


_AX_CACHE: dict = {}
_AX_KEYS = ("F:KnownStackValue", "F:Int.", "F:PushInt.", "F:Txn.", "F:Gtxn.", "F:Gtxns.", "F:Global.", "F:Addr.", "L.len",
            "L.elem:Int", "V:Instruction")


def known_sv_axioms(ex: Any, st: Any, n: VRef) -> List[Any]:
    """Instance of the semantic axioms for one KnownStackValue node (cached per node term, visit and heap)."""
    v = st.ghost.get("v")
    key = (n.term.get_id(), v.term.get_id() if v is not None else None, tuple(sorted(ACTIVE_SETS)),
           tuple(sorted((k, a.get_id()) for k, a in st.heap.items() if a is not None and k.startswith(_AX_KEYS))))
    hit = _AX_CACHE.get(key)
    if hit is None:
        hit = _known_sv_axioms(ex, st, n)
        _AX_CACHE[key] = hit
    return hit


def _known_sv_axioms(ex: Any, st: Any, n: VRef) -> List[Any]:
    ct = class_table()
    K = ct.cls("KnownStackValue")
    out: List[Any] = []
    ins, st2 = ex.read_field(n, K, "_ins", st)
    args, st2 = ex.read_field(n, K, "_args", st2)
    oidx, st2 = ex.read_field(n, K, "_ins_out_values_index", st2)
    out += st2.pc[len(st.pc):]
    nargs = ex.list_len(args, st2).term
    pops_arr = st2.harr("V:Instruction.stack_pop_size", z3.IntSort(), z3.IntSort())
    # class invariant of KnownStackValue (established by construct_stack_ast, contract of C11):
    out.append(nargs == z3.Select(pops_arr, ins.term))
    out.append(oidx.term >= 0)
    push_arr = st2.harr("V:Instruction.stack_push_size", z3.IntSort(), z3.IntSort())
    out.append(oidx.term < z3.Select(push_arr, ins.term))
    # stack effect of the fragment's single-result opcodes (spec table; the classes are checked against it under C11)
    for cname in list(BINOPS) + ["Not", "Int", "PushInt", "Txn", "Gtxn", "Gtxns", "Global", "Addr", "IntcInstruction"]:
        out.append(z3.Implies(cls_is(ex, ins.term, cname), z3.Select(push_arr, ins.term) == 1))
    _, el0 = ex._elem_arr(st2, args.elem)
    for j in range(3):
        aj = z3.Select(z3.Select(el0, args.ref), j)
        out.append(z3.Implies(nargs > j, z3.And(RANK(aj) >= 0, RANK(aj) < RANK(n.term))))
    v = st.ghost.get("v")
    if v is None:
        return out
    vt = v.term
    it = ins.term
    out.append(EV(vt, n.term) == VAL(vt, it, oidx.term))
    out += global_facts(vt)
    _, el = ex._elem_arr(st2, args.elem)
    a0 = z3.Select(z3.Select(el, args.ref), 0)
    a1 = z3.Select(z3.Select(el, args.ref), 1)
    for name, sem in BINOPS.items():
        out.append(z3.Implies(cls_is(ex, it, name), z3.And(nargs == 2, VAL(vt, it, 0) == sem(EV(vt, a0), EV(vt, a1)))))
    out.append(z3.Implies(cls_is(ex, it, "Not"), z3.And(nargs == 1, VAL(vt, it, 0) == z3.If(EV(vt, a0) == 0, 1, 0))))
    # literal pushes: int / pushint with an integer immediate or a named constant
    for cname in ("Int", "PushInt"):
        C = ct.cls(cname)
        val, st3 = ex.read_field(VRef(it, C, ex), C, "_value", st2)
        for g, alt in val.alts:
            if isinstance(alt, VInt):
                out.append(z3.Implies(z3.And(cls_is(ex, it, cname), g), z3.And(nargs == 0, VAL(vt, it, 0) == alt.term)))
            elif isinstance(alt, VStr):
                out.append(z3.Implies(z3.And(cls_is(ex, it, cname), g), z3.And(nargs == 0, VAL(vt, it, 0) == NAMED(alt.term))))
    for nm, val_ in NAMED_CONSTANTS.items():
        out.append(NAMED(z3.StringVal(nm)) == val_)
    # transaction field reads
    Txn, Gtxn, Gtxns = ct.cls("Txn"), ct.cls("Gtxn"), ct.cls("Gtxns")
    f_txn, _ = ex.read_field(VRef(it, Txn, ex), Txn, "_field", st2)
    out.append(z3.Implies(cls_is(ex, it, "Txn"),
                          z3.And(nargs == 0, VAL(vt, it, 0) == TXNFLD(vt, GIDX(vt), TYPEOF(f_txn.term)))))
    f_g, _ = ex.read_field(VRef(it, Gtxn, ex), Gtxn, "_field", st2)
    i_g, _ = ex.read_field(VRef(it, Gtxn, ex), Gtxn, "_idx", st2)
    out.append(z3.Implies(cls_is(ex, it, "Gtxn"),
                          z3.And(nargs == 0, i_g.term >= 0, i_g.term < GSIZE(vt),
                                 VAL(vt, it, 0) == TXNFLD(vt, i_g.term, TYPEOF(f_g.term)))))
    f_gs, _ = ex.read_field(VRef(it, Gtxns, ex), Gtxns, "_field", st2)
    out.append(z3.Implies(cls_is(ex, it, "Gtxns"),
                          z3.And(nargs == 1, EV(vt, a0) >= 0, EV(vt, a0) < GSIZE(vt),
                                 VAL(vt, it, 0) == TXNFLD(vt, EV(vt, a0), TYPEOF(f_gs.term)))))
    # global fields
    Global = ct.cls("Global")
    f_gl, _ = ex.read_field(VRef(it, Global, ex), Global, "_field", st2)
    out.append(z3.Implies(z3.And(cls_is(ex, it, "Global"), cls_is(ex, f_gl.term, "GroupSize")),
                          z3.And(nargs == 0, VAL(vt, it, 0) == GSIZE(vt))))
    out.append(z3.Implies(z3.And(cls_is(ex, it, "Global"), cls_is(ex, f_gl.term, "ZeroAddress")),
                          z3.And(nargs == 0, VAL(vt, it, 0) == ADDRCODE(z3.StringVal(ZERO_ADDRESS)))))
    out.append(z3.Implies(z3.And(cls_is(ex, it, "Global"), cls_is(ex, f_gl.term, "CreatorAddress")),
                          z3.And(nargs == 0, VAL(vt, it, 0) == CREATOR(vt))))
    if "addr" in ACTIVE_SETS:
        Addr = ct.cls("Addr")
        ad, _ = ex.read_field(VRef(it, Addr, ex), Addr, "_addr", st2)
        out.append(z3.Implies(cls_is(ex, it, "Addr"),
                              z3.And(nargs == 0, VAL(vt, it, 0) == ADDRCODE(ad.term), addr_inj(ad.term),
                                     z3.Length(ad.term) == 58, z3.Not(z3.Contains(ad.term, z3.StringVal("_"))))))
        out.append(addr_inj(z3.StringVal(ZERO_ADDRESS)))
    # uint64 range of the integer fields used by the properties
    for fname in ("Fee", "GroupIndex", "TypeEnum", "OnCompletion", "ApplicationID"):
        j = z3.Int("j!" + fname)
    return out


ON_TOUCH.setdefault("KnownStackValue", []).append(known_sv_axioms)


# ------------------------------------------------------------------------------------------------
# contract-level helpers
# ------------------------------------------------------------------------------------------------

def ev(v: Any, sv: Any, depth: int = 2) -> Any:
    """EV(v, sv) with the semantic axioms of sv (and of its arguments, to `depth`) instantiated."""
    from spec.native import NativeVisit, native_ev
    if isinstance(v, NativeVisit):
        return native_ev(v, sv)
    from pyvc.dsl import current
    ctx = current()
    ex, st = ctx.ex, ctx.st
    if isinstance(sv, VInt):          # raw address (element of a not-yet-typed list, or a bound variable)
        return VInt(EV(v.term, sv.term))
    if depth >= 0:
        _touch_rec(ex, st, sv, depth)
    term = sv.term if isinstance(sv, VRef) else ex.term_of_refu(sv)
    return VInt(EV(v.term, term))


def _touch_rec(ex: Any, st: Any, sv: Any, depth: int) -> None:
    ct = class_table()
    K = ct.cls("KnownStackValue")
    if isinstance(sv, VUnion):
        for g, alt in sv.alts:
            if isinstance(alt, VRef) and alt.cls is K:
                _touch_rec(ex, st, alt, depth)
        return
    if not isinstance(sv, VRef) or sv.cls is not K:
        return
    st2 = ex.touch(sv, st)
    st.pc[:] = st2.pc
    st.touched = st2.touched
    if depth <= 0:
        return
    args, st3 = ex.read_field(sv, K, "_args", st)
    st.pc[:] = st3.pc
    for i in range(2):
        a = ex.list_get(args, i, st)
        _touch_rec(ex, st, a, depth - 1)


def txnfld(v: Any, idx: Any, field_cls: str) -> Any:
    from pyvc.values import _i
    return VInt(TXNFLD(v.term, _i(idx), cls_id(field_cls)))


def gidx(v: Any) -> Any:
    return VInt(GIDX(v.term))


def gsize(v: Any) -> Any:
    return VInt(GSIZE(v.term))


def const_addr_ins_axioms(ex: Any, st: Any, it: Any, vt: Any) -> List[Any]:
    """value pushed by `addr X`, `global ZeroAddress`, `global CreatorAddress` (instruction-level instance)"""
    ct = class_table()
    out: List[Any] = []
    Global, Addr = ct.cls("Global"), ct.cls("Addr")
    f_gl, _ = ex.read_field(VRef(it, Global, ex), Global, "_field", st)
    out.append(z3.Implies(z3.And(cls_is(ex, it, "Global"), cls_is(ex, f_gl.term, "ZeroAddress")),
                          VAL(vt, it, 0) == ADDRCODE(z3.StringVal(ZERO_ADDRESS))))
    out.append(z3.Implies(z3.And(cls_is(ex, it, "Global"), cls_is(ex, f_gl.term, "CreatorAddress")),
                          VAL(vt, it, 0) == CREATOR(vt)))
    ad, _ = ex.read_field(VRef(it, Addr, ex), Addr, "_addr", st)
    out.append(z3.Implies(cls_is(ex, it, "Addr"), z3.And(VAL(vt, it, 0) == ADDRCODE(ad.term), addr_inj(ad.term),
                                                       z3.Length(ad.term) == 58, z3.Not(z3.Contains(ad.term, z3.StringVal("_"))))))   # assembler-valid literal
    out.append(addr_inj(z3.StringVal(ZERO_ADDRESS)))
    return out


def addr_literal_axioms(ex: Any, st: Any, ins: VRef) -> List[Any]:
    """assembler-valid `addr` literal: 58 base32 characters (in particular no '_', which every marker token contains)"""
    A = class_table().cls("Addr")
    ad, _ = ex.read_field(VRef(ins.term, A, ex), A, "_addr", st)
    return [z3.Length(ad.term) == 58, z3.Not(z3.Contains(ad.term, z3.StringVal("_")))]


ON_TOUCH.setdefault("Addr", []).append(addr_literal_axioms)


def int_push_ins_axioms(ex: Any, st: Any, it: Any, vt: Any) -> List[Any]:
    """Instruction-level semantics of the literal pushes, and the *definition* of the ghosts HASINTLIT / INTLIT:
      int / pushint c      pushes c (a named constant pushes its assembler value; valid programs use the assembler's names)
      intc i / intc_k      pushes constants[i] of the governing intcblock.  Lemma L-INTC (trusted, DESIGN §7): when
                           Teal._int_constants is non-empty it holds the constants of the program's only intcblock, which
                           sits in the entry block and therefore governs every intc of every run."""
    from spec.ghost import HASINTLIT, INTLIT
    ct = class_table()
    out: List[Any] = []
    lit_cases = []
    for cname in ("Int", "PushInt"):
        C = ct.cls(cname)
        val, _ = ex.read_field(VRef(it, C, ex), C, "_value", st)
        for g, alt in val.alts:
            if isinstance(alt, VInt):
                out.append(z3.Implies(z3.And(cls_is(ex, it, cname), g),
                                      z3.And(VAL(vt, it, 0) == alt.term, alt.term >= 0, alt.term <= MAX_UINT64,
                                             HASINTLIT(it), INTLIT(it) == alt.term)))
                lit_cases.append(z3.And(cls_is(ex, it, cname), g))
            elif isinstance(alt, VStr):
                out.append(z3.Implies(z3.And(cls_is(ex, it, cname), g),
                                      z3.And(VAL(vt, it, 0) == NAMED(alt.term),
                                             z3.Or([alt.term == z3.StringVal(n) for n in NAMED_CONSTANTS]))))
    for nm, val_ in NAMED_CONSTANTS.items():
        out.append(NAMED(z3.StringVal(nm)) == val_)
    IC, I_, BB, TL = ct.cls("IntcInstruction"), ct.cls("Instruction"), ct.cls("BasicBlock"), ct.cls("Teal")
    idx, _ = ex.read_field(VRef(it, IC, ex), IC, "_idx", st)
    bb, _ = ex.read_field(VRef(it, I_, ex), I_, "_bb", st)
    for g, alt in bb.alts:
        if isinstance(alt, VRef):
            teal, _ = ex.read_field(alt, BB, "_teal", st)
            for g2, alt2 in teal.alts:
                if isinstance(alt2, VRef):
                    consts, _ = ex.read_field(alt2, TL, "_int_constants", st)
                    n = ex.list_len(consts, st).term
                    cv = ex.list_get(consts, idx.term, st).term
                    known = z3.And(cls_is(ex, it, "IntcInstruction"), g, g2, idx.term >= 0, idx.term < n)
                    out.append(z3.Implies(known, z3.And(VAL(vt, it, 0) == cv, cv >= 0, cv <= MAX_UINT64,
                                                        HASINTLIT(it), INTLIT(it) == cv)))
                    lit_cases.append(known)
    out.append(z3.Implies(HASINTLIT(it), z3.Or(lit_cases)))
    return out


def intc_index_axioms(ex: Any, st: Any, ins: VRef) -> List[Any]:
    """assembler-valid immediates: the constant index of intc / intc_k is a uint8"""
    IC = class_table().cls("IntcInstruction")
    idx, _ = ex.read_field(VRef(ins.term, IC, ex), IC, "_idx", st)
    return [idx.term >= 0, idx.term <= 255]


ON_TOUCH.setdefault("IntcInstruction", []).append(intc_index_axioms)
