"""Ghost (specification-only) symbols shared by the contracts of the analysis kernels (DESIGN.md §6.1–6.6).

ISFIELDREAD(key, sv)  "stack value sv is a read of exactly the transaction field tracked by analysis key `key`"
                      (defined by the contract of key_helpers.is_value_matches_key; its semantic consequence:
                       in every visit in which tgt(key) is defined, EV(v, sv) = KEYFLD(v, key))
KEYDEF(v, key)        tgt(key, sigma(v)) is defined (DESIGN §5.3)
KEYFLD(v, key)        value of the tracked field of tgt(key, sigma(v))
HASINTLIT(ins), INTLIT(ins)   instruction pushes an integer literal whose value the tool can read; that value
"""
import z3
from pyvc.values import VBool, VInt, abs_sort, _s

Visit = abs_sort("Visit")
ISFIELDREAD = z3.Function("ISFIELDREAD", z3.StringSort(), z3.IntSort(), z3.BoolSort())
ISFIELDREAD_F = z3.Function("ISFIELDREAD_F", z3.StringSort(), z3.IntSort(), z3.IntSort(), z3.BoolSort())
KEYDEF = z3.Function("KEYDEF", Visit, z3.StringSort(), z3.BoolSort())
KEYFLD = z3.Function("KEYFLD", Visit, z3.StringSort(), z3.IntSort())
KEYFLD_F = z3.Function("KEYFLD_F", Visit, z3.StringSort(), z3.IntSort(), z3.IntSort())
HASINTLIT = z3.Function("HASINTLIT", z3.IntSort(), z3.BoolSort())
INTLIT = z3.Function("INTLIT", z3.IntSort(), z3.IntSort())
READFIELDCLS = z3.Function("READFIELDCLS", z3.IntSort(), z3.IntSort())   # class id of the field a field-read node reads


from pyvc.values import V
from spec import native as N


def _t(x):
    from pyvc.dsl import current
    return current().ex.term_of_refu(x)


def _read_axiom(pred, sv):
    """definitional: only txn / gtxn / gtxns results are transaction-field reads"""
    from pyvc.dsl import current
    from pyvc.state import initial_heap_array
    from spec.avm_axioms import cls_is
    ctx = current()
    I = z3.IntSort()
    ins = z3.Select(ctx.st.harr("F:KnownStackValue._ins", I, I), _t(sv))
    ctx.st.pc.append(z3.Implies(pred, z3.Or(cls_is(ctx.ex, ins, "Txn"), cls_is(ctx.ex, ins, "Gtxn"),
                                            cls_is(ctx.ex, ins, "Gtxns"))))


def is_field_read(key, sv):
    if not isinstance(sv, V):
        return N.native_is_field_read(key, sv)
    p = ISFIELDREAD(_s(key), _t(sv))
    _read_axiom(p, sv)
    return VBool(p)


def keydef(v, key):
    if isinstance(v, N.NativeVisit):
        return N.native_keydef(v, key)
    return VBool(KEYDEF(v.term, _s(key)))


def keyfld(v, key):
    if isinstance(v, N.NativeVisit):
        return N.native_keyfld(v, key)
    return VInt(KEYFLD(v.term, _s(key)))


def has_int_lit(ins):
    if not isinstance(ins, V):
        return N.native_int_lit(ins) is not None
    # definitional axiom: only literal-pushing opcodes have a readable literal
    from pyvc.dsl import current
    from spec.avm_axioms import cls_is
    ctx = current()
    ctx.st.pc.append(z3.Implies(HASINTLIT(ins.term), z3.Or(cls_is(ctx.ex, ins.term, "Int"), cls_is(ctx.ex, ins.term, "PushInt"),
                                                           cls_is(ctx.ex, ins.term, "IntcInstruction"))))
    return VBool(HASINTLIT(ins.term))


def int_lit(ins):
    if not isinstance(ins, V):
        return N.native_int_lit(ins)
    return VInt(INTLIT(ins.term))


def _clsid(c):
    from pyvc.values import VClass, VUnion, TCls, to_term
    if isinstance(c, str):
        from spec.avm_axioms import cls_id
        return z3.IntVal(cls_id(c))
    if isinstance(c, VUnion):
        for g, a in c.alts:
            if isinstance(a, VClass):
                return to_term(a, TCls(object))
    return to_term(c, TCls(object))


def is_field_read_f(key, sv, field_cls):
    """as is_field_read, for an explicitly given transaction-field class (name, class or VClass)"""
    if not isinstance(sv, V):
        name = field_cls if isinstance(field_cls, str) else field_cls.__name__
        return N.native_is_field_read(key, sv, name)
    p = ISFIELDREAD_F(_s(key), _t(sv), _clsid(field_cls))
    _read_axiom(p, sv)
    # a node reads one field: (leaf) field classes of two reads of the same node coincide
    from pyvc.dsl import current
    current().st.pc.append(z3.Implies(p, READFIELDCLS(_t(sv)) == _clsid(field_cls)))
    return VBool(p)


def keyfld_f(v, key, field_cls):
    if isinstance(v, N.NativeVisit):
        name = field_cls if isinstance(field_cls, str) else field_cls.__name__
        return N.native_keyfld(v, key, name)
    return VInt(KEYFLD_F(v.term, _s(key), _clsid(field_cls)))
