"""Concretisations of the abstract domains (DESIGN.md §5.3).  Written from the property statements.

Every function is polymorphic: pyvc symbolic values for the proof, real tealer values for replay.
"""
from pyvc.dsl import And, Or, Not, Implies, If, In

# Property-side constants (C09 / C01): *not* read from tealer.
MAX_GROUP_COST_BOUND = 272000
MAX_UINT64 = 2 ** 64 - 1


def wf_fee(f):
    """FeeValue well-formedness: a known bound is a non-negative integer."""
    return f.value >= 0


def in_gamma_fee(f, c):
    """c in gamma(f): gamma(FeeValue(False, v)) = [0, v];  gamma(FeeValue(True, _)) = [0, 272000] (hypothesis H_fee)."""
    return And(c >= 0, If(f.is_unknown, c <= MAX_GROUP_COST_BOUND, c <= f.value))


# ---- addresses (C08) ---------------------------------------------------------------------------------------------
ANY_ADDRESS = "ANY_ADDRESS"
NO_ADDRESS = "NO_ADDRESS"
CREATOR_ADDRESS = "CREATOR_ADDRESS"
REAL_ZERO_ADDRESS = "AAAAAAAAAAAAAAAAAAAAAAAAAAAAAAAAAAAAAAAAAAAAAAAAAAAAY5HFKQ"   # 32 zero bytes + checksum (AVM)


def wf_addr(S):
    """marker tokens stand alone:  ANY in S => S = {ANY};  NO in S => S = {NO}"""
    from pyvc.values import V, VSet
    import z3
    if isinstance(S, V):
        one = lambda tok: VSet(S.elem, z3.Store(z3.K(z3.StringSort(), z3.BoolVal(False)), z3.StringVal(tok), z3.BoolVal(True)))
        from pyvc.dsl import Eq
        return And(Implies(In(ANY_ADDRESS, S), Eq(S, one(ANY_ADDRESS))), Implies(In(NO_ADDRESS, S), Eq(S, one(NO_ADDRESS))))
    return (ANY_ADDRESS not in S or S == {ANY_ADDRESS}) and (NO_ADDRESS not in S or S == {NO_ADDRESS})


def in_gamma_addr(S, a, v):
    """non-zero address a (symbolic: its code; native: its string) is admitted by the abstract set S in visit v:
    'any address', or a literal listed in S, or the creator when S holds the creator token.  NO_ADDRESS and the
    SOME_ADDRESS_* tokens (comparands evaluated at run time, outside the claim) contribute nothing."""
    from pyvc.values import V, VStr, VInt, VBool
    if isinstance(S, V):
        import z3
        from spec.avm_axioms import ADDRDECODE, ADDRCODE, CREATOR
        s = ADDRDECODE(a.term)
        is_token = z3.Or(s == ANY_ADDRESS, s == NO_ADDRESS, s == CREATOR_ADDRESS, z3.PrefixOf(z3.StringVal("SOME_ADDRESS"), s))
        return Or(In(ANY_ADDRESS, S), And(VBool(ADDRCODE(s) == a.term), Not(VBool(is_token)), In(VStr(s), S)),
                  And(In(CREATOR_ADDRESS, S), VBool(a.term == CREATOR(v.term))))
    return ANY_ADDRESS in S or (a in S and a not in (ANY_ADDRESS, NO_ADDRESS, CREATOR_ADDRESS)) or \
        (CREATOR_ADDRESS in S and a == v.creator)
