"""Concretisations of the abstract domains (DESIGN.md §5.3).  Written from the property statements.

Every function is polymorphic: pyvc symbolic values for the proof, real tealer values for replay.
"""
from pyvc.dsl import And, Or, Not, Implies, If, In

# Property-side constants (C09 / C01): *not* read from tealer.
MAX_GROUP_COST_BOUND = 272000
MAX_UINT64 = 2 ** 64 - 1


def wf_fee(f):
    """FeeValue well-formedness: a known bound is a non-negative integer."""
    return f.value >= 0


def in_gamma_fee(f, c):
    """c in gamma(f): gamma(FeeValue(False, v)) = [0, v];  gamma(FeeValue(True, _)) = [0, 272000] (hypothesis H_fee)."""
    return And(c >= 0, If(f.is_unknown, c <= MAX_GROUP_COST_BOUND, c <= f.value))
